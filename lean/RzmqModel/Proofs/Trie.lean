import RzmqModel.Model.Routing
/-! Helper lemmas for C12 (subscription trie). -/
namespace Rzmq

/-! ### children association list -/

theorem childLookup_upsert (ch : List (UInt8 × Trie)) (b b' : UInt8) (f : Trie → Trie) :
    childLookup (childUpsert ch b f) b' =
      if b' = b then some (f ((childLookup ch b).getD Trie.empty)) else childLookup ch b' := by
  induction ch with
  | nil =>
    by_cases hb : b' = b
    · simp [childUpsert, childLookup, hb]
    · have hb2 : ¬ b = b' := fun h => hb h.symm
      simp [childUpsert, childLookup, hb, hb2]
  | cons hd tl ih =>
    obtain ⟨k, t⟩ := hd
    by_cases hk : k = b
    · subst hk
      by_cases hb : b' = k
      · subst hb
        simp [childUpsert, childLookup]
      · have hb2 : ¬ k = b' := fun h => hb h.symm
        simp [childUpsert, childLookup, hb, hb2]
    · by_cases hb : b' = b
      · subst hb
        simp [childUpsert, childLookup, hk, ih]
      · by_cases hkb : k = b'
        · simp [childUpsert, childLookup, hb, hkb]
        · simp [childUpsert, childLookup, hk, hb, hkb, ih]

theorem childLookup_replace (ch : List (UInt8 × Trie)) (b b' : UInt8) (t' : Trie) :
    childLookup (childReplace ch b t') b' =
      if b' = b then (childLookup ch b).map (fun _ => t') else childLookup ch b' := by
  induction ch with
  | nil => simp [childReplace, childLookup]
  | cons hd tl ih =>
    obtain ⟨k, t⟩ := hd
    by_cases hk : k = b
    · subst hk
      by_cases hb : b' = k
      · subst hb
        simp [childReplace, childLookup]
      · have hb2 : ¬ k = b' := fun h => hb h.symm
        simp [childReplace, childLookup, hb, hb2]
    · by_cases hb : b' = b
      · subst hb
        simp [childReplace, childLookup, hk, ih]
      · by_cases hkb : k = b'
        · simp [childReplace, childLookup, hb, hkb]
        · simp [childReplace, childLookup, hk, hb, hkb, ih]

theorem countAt_empty (q : List UInt8) : Trie.empty.countAt q = 0 := by
  cases q <;> simp [Trie.empty, Trie.countAt, childLookup]

/-! ### counts -/

theorem countAt_subscribe (p q : List UInt8) (t : Trie) :
    (t.subscribe p).countAt q = t.countAt q + (if p = q then 1 else 0) := by
  induction p generalizing q t with
  | nil =>
    obtain ⟨c, ch⟩ := t
    cases q with
    | nil => simp [Trie.subscribe, Trie.countAt]
    | cons b' rest' => simp [Trie.subscribe, Trie.countAt]
  | cons b rest ih =>
    obtain ⟨c, ch⟩ := t
    cases q with
    | nil => simp [Trie.subscribe, Trie.countAt]
    | cons b' rest' =>
      simp only [Trie.subscribe, Trie.countAt, childLookup_upsert]
      by_cases hb : b' = b
      · subst hb
        simp only [if_true, ih]
        cases hl : childLookup ch b' with
        | none => simp [countAt_empty]
        | some t' => simp
      · have hb2 : ¬ b = b' := fun h => hb h.symm
        simp [hb, hb2]

theorem countAt_unsubscribe (p q : List UInt8) (t : Trie) :
    (t.unsubscribe p).1.countAt q = t.countAt q - (if p = q then 1 else 0) := by
  induction p generalizing q t with
  | nil =>
    obtain ⟨c, ch⟩ := t
    cases q with
    | nil =>
      simp only [Trie.unsubscribe]
      split <;> simp [Trie.countAt] <;> omega
    | cons b' rest' =>
      simp only [Trie.unsubscribe]
      split <;> simp [Trie.countAt]
  | cons b rest ih =>
    obtain ⟨c, ch⟩ := t
    cases q with
    | nil =>
      simp only [Trie.unsubscribe]
      split <;> simp [Trie.countAt]
    | cons b' rest' =>
      simp only [Trie.unsubscribe]
      split
      next hl =>
        by_cases hb : b' = b
        · subst hb
          simp [Trie.countAt, hl]
        · have hb2 : ¬ b = b' := fun h => hb h.symm
          simp [hb2]
      next t' hl =>
        simp only [Trie.countAt, childLookup_replace]
        by_cases hb : b' = b
        · subst hb
          simp [hl, ih]
        · have hb2 : ¬ b = b' := fun h => hb h.symm
          simp [hb, hb2]

theorem unsubscribe_snd_iff (p : List UInt8) (t : Trie) :
    (t.unsubscribe p).2 = true ↔ t.countAt p = 1 := by
  induction p generalizing t with
  | nil =>
    obtain ⟨c, ch⟩ := t
    simp only [Trie.unsubscribe, Trie.countAt]
    split
    · simp
    · have : c = 0 := by omega
      simp [this]
  | cons b rest ih =>
    obtain ⟨c, ch⟩ := t
    cases hl : childLookup ch b with
    | none => simp [Trie.unsubscribe, Trie.countAt, hl]
    | some t' => simp [Trie.unsubscribe, Trie.countAt, hl, ih]

theorem unsubscribe_result (p : List UInt8) (t : Trie) :
    (t.unsubscribe p).2 = decide (t.countAt p = 1) := by
  rw [Bool.eq_iff_iff, decide_eq_true_iff]
  exact unsubscribe_snd_iff p t

theorem matches_iff (msg : List UInt8) (t : Trie) :
    t.matches msg = true ↔ ∃ p, p <+: msg ∧ 0 < t.countAt p := by
  induction msg generalizing t with
  | nil =>
    obtain ⟨c, ch⟩ := t
    simp [Trie.matches, Trie.countAt]
  | cons b rest ih =>
    obtain ⟨c, ch⟩ := t
    simp only [Trie.matches]
    constructor
    · intro h
      split at h
      next hc => exact ⟨[], List.nil_prefix, by simpa [Trie.countAt] using hc⟩
      next hc =>
        split at h
        · cases h
        next t' hl =>
          obtain ⟨p, hp, hcnt⟩ := (ih t').mp h
          refine ⟨b :: p, ?_, ?_⟩
          · rw [List.prefix_cons_iff]
            exact Or.inr ⟨p, rfl, hp⟩
          · simpa [Trie.countAt, hl] using hcnt
    · rintro ⟨p, hp, hcnt⟩
      rw [List.prefix_cons_iff] at hp
      rcases hp with rfl | ⟨p', rfl, hp'⟩
      · have : c > 0 := by simpa [Trie.countAt] using hcnt
        simp [this]
      · split
        · rfl
        · simp only [Trie.countAt] at hcnt
          split at hcnt
          · omega
          next t' hl =>
            exact (ih t').mpr ⟨p', hp', hcnt⟩

theorem apply_countAt (t : Trie) (op : SubOp) (p : List UInt8) :
    (t.apply op).countAt p = absCountFrom p (t.countAt p) [op] := by
  cases op with
  | sub q =>
    simp only [Trie.apply, absCountFrom, countAt_subscribe]
    split <;> rfl
  | unsub q =>
    simp only [Trie.apply, absCountFrom, countAt_unsubscribe]
    split <;> rfl

theorem foldl_apply_countAt (h : List SubOp) (t : Trie) (p : List UInt8) :
    (h.foldl Trie.apply t).countAt p = absCountFrom p (t.countAt p) h := by
  induction h generalizing t with
  | nil => rfl
  | cons op rest ih =>
    rw [List.foldl_cons, ih, apply_countAt]
    cases op <;> simp [absCountFrom]

/-! ### well-formedness: child keys pairwise distinct, recursively -/

mutual
def Trie.wf : Trie → Bool
  | .node _ ch => Trie.wfCh ch
def Trie.wfCh : List (UInt8 × Trie) → Bool
  | [] => true
  | (b, t) :: rest => (childLookup rest b).isNone && t.wf && Trie.wfCh rest
end

theorem wf_empty : Trie.empty.wf = true := by
  simp [Trie.empty, Trie.wf, Trie.wfCh]

theorem wfCh_lookup (ch : List (UInt8 × Trie)) (b : UInt8) (t : Trie) (h : Trie.wfCh ch = true)
    (hl : childLookup ch b = some t) : t.wf = true := by
  induction ch with
  | nil => simp [childLookup] at hl
  | cons hd tl ih =>
    obtain ⟨k, t'⟩ := hd
    simp only [Trie.wfCh, Bool.and_eq_true] at h
    simp only [childLookup] at hl
    split at hl
    · cases hl; exact h.1.2
    · exact ih h.2 hl

theorem wfCh_upsert (ch : List (UInt8 × Trie)) (b : UInt8) (f : Trie → Trie)
    (hf : ∀ t, t.wf = true → (f t).wf = true) (h : Trie.wfCh ch = true) :
    Trie.wfCh (childUpsert ch b f) = true := by
  induction ch with
  | nil => simp [childUpsert, Trie.wfCh, childLookup, hf _ wf_empty]
  | cons hd tl ih =>
    obtain ⟨k, t⟩ := hd
    simp only [Trie.wfCh, Bool.and_eq_true] at h
    obtain ⟨⟨h1, h2⟩, h3⟩ := h
    by_cases hk : k = b
    · subst hk
      simp [childUpsert, Trie.wfCh, h1, hf _ h2, h3]
    · simp [childUpsert, hk, Trie.wfCh, childLookup_upsert, h1, h2, ih h3]

theorem wfCh_replace (ch : List (UInt8 × Trie)) (b : UInt8) (t' : Trie)
    (ht : t'.wf = true) (h : Trie.wfCh ch = true) :
    Trie.wfCh (childReplace ch b t') = true := by
  induction ch with
  | nil => simp [childReplace, Trie.wfCh]
  | cons hd tl ih =>
    obtain ⟨k, t⟩ := hd
    simp only [Trie.wfCh, Bool.and_eq_true] at h
    obtain ⟨⟨h1, h2⟩, h3⟩ := h
    by_cases hk : k = b
    · subst hk
      simp [childReplace, Trie.wfCh, h1, ht, h3]
    · simp [childReplace, hk, Trie.wfCh, childLookup_replace, h1, h2, ih h3]

theorem wf_subscribe (p : List UInt8) (t : Trie) (h : t.wf = true) : (t.subscribe p).wf = true := by
  induction p generalizing t with
  | nil =>
    obtain ⟨c, ch⟩ := t
    simpa [Trie.subscribe, Trie.wf] using h
  | cons b rest ih =>
    obtain ⟨c, ch⟩ := t
    simp only [Trie.subscribe, Trie.wf] at h ⊢
    exact wfCh_upsert ch b _ ih h

theorem wf_unsubscribe (p : List UInt8) (t : Trie) (h : t.wf = true) : (t.unsubscribe p).1.wf = true := by
  induction p generalizing t with
  | nil =>
    obtain ⟨c, ch⟩ := t
    simp only [Trie.unsubscribe]
    split <;> simpa [Trie.wf] using h
  | cons b rest ih =>
    obtain ⟨c, ch⟩ := t
    cases hl : childLookup ch b with
    | none => simpa [Trie.unsubscribe, hl] using h
    | some t' =>
      simp only [Trie.unsubscribe, hl, Trie.wf] at h ⊢
      exact wfCh_replace ch b _ (ih t' (wfCh_lookup ch b t' h hl)) h

theorem wf_apply (t : Trie) (op : SubOp) (h : t.wf = true) : (t.apply op).wf = true := by
  cases op with
  | sub q => exact wf_subscribe q t h
  | unsub q => exact wf_unsubscribe q t h

theorem wf_foldl (h : List SubOp) (t : Trie) (ht : t.wf = true) : (h.foldl Trie.apply t).wf = true := by
  induction h generalizing t with
  | nil => exact ht
  | cons op rest ih => exact ih _ (wf_apply t op ht)

/-! ### topics -/

theorem count_map_cons (b b' : UInt8) (p : List UInt8) (l : List (List UInt8)) :
    (l.map (b' :: ·)).count (b :: p) = if b = b' then l.count p else 0 := by
  induction l with
  | nil => simp
  | cons x xs ih =>
    simp only [List.map_cons, List.count_cons, ih]
    by_cases hb : b = b'
    · subst hb
      simp
    · have hb2 : ¬ b' = b := fun h => hb h.symm
      simp [hb, hb2]

theorem count_nil_map_cons (b' : UInt8) (l : List (List UInt8)) :
    (l.map (b' :: ·)).count [] = 0 := by
  induction l with
  | nil => simp
  | cons x xs ih => simp [ih]

theorem count_nil_topicsCh (ch : List (UInt8 × Trie)) : (Trie.topicsCh ch).count [] = 0 := by
  induction ch with
  | nil => simp [Trie.topicsCh]
  | cons hd tl ih =>
    obtain ⟨k, t⟩ := hd
    simp [Trie.topicsCh, List.count_append, count_nil_map_cons, ih]

theorem count_cons_topicsCh_none (ch : List (UInt8 × Trie)) (b : UInt8) (rest : List UInt8)
    (hl : childLookup ch b = none) : (Trie.topicsCh ch).count (b :: rest) = 0 := by
  induction ch with
  | nil => simp [Trie.topicsCh]
  | cons hd tl ih =>
    obtain ⟨k, t⟩ := hd
    simp only [childLookup] at hl
    split at hl
    · cases hl
    next hk =>
      have hk' : ¬ b = k := fun h => hk (by simp [h])
      simp [Trie.topicsCh, List.count_append, count_map_cons, hk', ih hl]

theorem count_cons_topicsCh_some (ch : List (UInt8 × Trie)) (b : UInt8) (rest : List UInt8) (t : Trie)
    (h : Trie.wfCh ch = true) (hl : childLookup ch b = some t) :
    (Trie.topicsCh ch).count (b :: rest) = t.topics.count rest := by
  induction ch with
  | nil => simp [childLookup] at hl
  | cons hd tl ih =>
    obtain ⟨k, t'⟩ := hd
    simp only [Trie.wfCh, Bool.and_eq_true] at h
    obtain ⟨⟨h1, h2⟩, h3⟩ := h
    simp only [childLookup] at hl
    split at hl
    next hk =>
      have hk' : k = b := by simpa using hk
      subst hk'
      cases hl
      have hnone : childLookup tl k = none := by simpa using h1
      simp [Trie.topicsCh, List.count_append, count_map_cons, count_cons_topicsCh_none tl k rest hnone]
    next hk =>
      have hk' : ¬ b = k := fun h => hk (by simp [h])
      simp [Trie.topicsCh, List.count_append, count_map_cons, hk', ih h3 hl]

theorem count_topics (p : List UInt8) (t : Trie) (h : t.wf = true) :
    t.topics.count p = if 0 < t.countAt p then 1 else 0 := by
  induction p generalizing t with
  | nil =>
    obtain ⟨c, ch⟩ := t
    simp only [Trie.topics, Trie.countAt, List.count_append, count_nil_topicsCh]
    split <;> simp_all
  | cons b rest ih =>
    obtain ⟨c, ch⟩ := t
    simp only [Trie.wf] at h
    have h0 : (if c > 0 then [[]] else ([] : List (List UInt8))).count (b :: rest) = 0 := by
      split <;> simp
    cases hl : childLookup ch b with
    | none =>
      simp [Trie.topics, Trie.countAt, List.count_append, h0, hl, count_cons_topicsCh_none ch b rest hl]
    | some t' =>
      simp only [Trie.topics, Trie.countAt, List.count_append, h0, hl,
        count_cons_topicsCh_some ch b rest t' h hl, Nat.zero_add]
      exact ih t' (wfCh_lookup ch b t' h hl)

theorem mem_topics_iff (p : List UInt8) (t : Trie) (h : t.wf = true) :
    p ∈ t.topics ↔ 0 < t.countAt p := by
  rw [← List.count_pos_iff, count_topics p t h]
  split <;> simp_all

theorem topics_nodup_of_wf (t : Trie) (h : t.wf = true) : t.topics.Nodup := by
  rw [List.nodup_iff_count]
  intro p
  rw [count_topics p t h]
  split <;> omega

end Rzmq
