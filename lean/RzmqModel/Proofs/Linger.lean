import RzmqModel.Model.Linger
import RzmqModel.Proofs.Session
import RzmqModel.Props.C01
/-!
Helper lemmas for `Props/C15.lean` (model: `Model/Linger.lean`).
-/
namespace Rzmq

-- ---------------------------------------------------------------------------------------------
-- how long the linger phase lasts
-- ---------------------------------------------------------------------------------------------

theorem lingerEnds_zero (tick fuel k : Nat) (emptyAt : Option Nat) :
    lingerEnds tick .zero emptyAt (fuel + 1) k = some (k * tick) := by
  simp [lingerEnds, lingerDone]

/-- what a linger check sees of the pipes at time `now` -/
def pipesEmptyAt (emptyAt : Option Nat) (now : Nat) : Bool :=
  match emptyAt with
  | some e => decide (e ≤ now)
  | none => false

theorem pipesEmptyAt_true {emptyAt : Option Nat} {now : Nat} (h : pipesEmptyAt emptyAt now = true) :
    ∃ e, emptyAt = some e ∧ e ≤ now := by
  cases emptyAt with
  | none => simp [pipesEmptyAt] at h
  | some e => exact ⟨e, rfl, by simpa [pipesEmptyAt] using h⟩

theorem lingerEnds_succ (tick : Nat) (linger : Timeo) (emptyAt : Option Nat) (fuel k : Nat) :
    lingerEnds tick linger emptyAt (fuel + 1) k =
      if lingerDone linger (pipesEmptyAt emptyAt (k * tick)) (k * tick) then some (k * tick)
      else lingerEnds tick linger emptyAt fuel (k + 1) := rfl

/-- LINGER -1, from any check index: the phase can only end at a check that sees the pipes empty -/
theorem lingerEnds_infinite (tick : Nat) (emptyAt : Option Nat) : ∀ (fuel k t : Nat),
    lingerEnds tick .infinite emptyAt fuel k = some t → ∃ e, emptyAt = some e ∧ e ≤ t := by
  intro fuel
  induction fuel with
  | zero => intro k t h; simp [lingerEnds] at h
  | succ fuel ih =>
    intro k t h
    rw [lingerEnds_succ] at h
    split at h
    · rename_i hd
      simp only [lingerDone, Bool.or_false] at hd
      simp only [Option.some.injEq] at h
      subst h
      exact pipesEmptyAt_true hd
    · exact ih _ _ h

theorem lingerEnds_infinite_none (tick : Nat) : ∀ (fuel k : Nat), lingerEnds tick .infinite none fuel k = none := by
  intro fuel
  induction fuel with
  | zero => intro k; rfl
  | succ fuel ih => intro k; simp [lingerEnds, lingerDone, ih]

/-- a bounded LINGER, from check index `k` (not yet past the deadline by a whole tick) with enough checks left to
reach the deadline: the phase ends before `d + tick`, and before `d` only on empty pipes -/
theorem lingerEnds_ms (tick d : Nat) (emptyAt : Option Nat) : ∀ (fuel k : Nat),
    k * tick < d + tick → d + tick ≤ (k + fuel) * tick →
    ∃ t, lingerEnds tick (.ms d) emptyAt fuel k = some t ∧ t < d + tick
      ∧ (t < d → ∃ e, emptyAt = some e ∧ e ≤ t) := by
  intro fuel
  induction fuel with
  | zero => intro k h1 h2; simp only [Nat.add_zero] at h2; omega
  | succ fuel ih =>
    intro k h1 h2
    rw [lingerEnds_succ]
    split
    · rename_i hd
      refine ⟨k * tick, rfl, h1, ?_⟩
      intro hlt
      simp only [lingerDone, Bool.or_eq_true, decide_eq_true_eq] at hd
      cases hd with
      | inl hd => exact pipesEmptyAt_true hd
      | inr hd => omega
    · rename_i hd
      have hnd : ¬ d ≤ k * tick := by
        intro hle
        apply hd
        simp [lingerDone, hle]
      have e1 : (k + 1) * tick = k * tick + tick := Nat.succ_mul k tick
      have e2 : (k + 1 + fuel) = (k + (fuel + 1)) := by omega
      exact ih (k + 1) (by omega) (by rw [e2]; exact h2)

/-- the fuel hypothesis of `linger_bounded` gives enough checks -/
theorem linger_fuel_enough (tick : Nat) (ht : 0 < tick) (d fuel : Nat) (hf : d / tick + 1 < fuel) :
    d + tick ≤ fuel * tick := by
  have h1 : tick * (d / tick) + d % tick = d := Nat.div_add_mod d tick
  have h2 : d % tick < tick := Nat.mod_lt d ht
  have h3 : (d / tick + 2) * tick ≤ fuel * tick := Nat.mul_le_mul_right tick (by omega)
  have h4 : (d / tick + 2) * tick = d / tick * tick + 2 * tick := Nat.add_mul _ _ _
  have h5 : tick * (d / tick) = d / tick * tick := Nat.mul_comm _ _
  generalize d / tick * tick = x at h3 h4 h5
  generalize tick * (d / tick) = y at h1 h5
  omega

/-- whatever LINGER is (−1 included): once the pipes are empty the next check ends the phase -/
theorem lingerEnds_drained (tick : Nat) (linger : Timeo) (e : Nat) : ∀ (fuel k : Nat),
    e + tick ≤ (k + fuel) * tick → k * tick < e + tick →
    ∃ t, lingerEnds tick linger (some e) fuel k = some t ∧ t < e + tick := by
  intro fuel
  induction fuel with
  | zero => intro k h1 h2; simp only [Nat.add_zero] at h1; omega
  | succ fuel ih =>
    intro k h1 h2
    rw [lingerEnds_succ]
    by_cases hd : lingerDone linger (pipesEmptyAt (some e) (k * tick)) (k * tick) = true
    · rw [if_pos hd]; exact ⟨_, rfl, h2⟩
    · rw [if_neg hd]
      have hne : ¬ e ≤ k * tick := by
        intro hle
        apply hd
        simp [lingerDone, pipesEmptyAt, hle]
      have h3 : (k + 1) * tick = k * tick + tick := Nat.succ_mul k tick
      apply ih (k + 1)
      · have : k + 1 + fuel = k + (fuel + 1) := by omega
        rw [this]; exact h1
      · omega

theorem lingerEnds_ms_bounded (tick : Nat) (ht : 0 < tick) (d : Nat) (emptyAt : Option Nat) (fuel : Nat)
    (hf : d / tick + 1 < fuel) :
    ∃ t, lingerEnds tick (.ms d) emptyAt fuel 0 = some t ∧ t < d + tick
      ∧ (t < d → ∃ e, emptyAt = some e ∧ e ≤ t) := by
  apply lingerEnds_ms tick d emptyAt fuel 0
  · omega
  · rw [Nat.zero_add]; exact linger_fuel_enough tick ht d fuel hf

/-- the same with the exact number of checks needed: the check at index `⌈d / tick⌉` must be among them -/
theorem lingerEnds_ms_bounded_tight (tick : Nat) (ht : 0 < tick) (d : Nat) (emptyAt : Option Nat) (fuel : Nat)
    (hf : (d + tick - 1) / tick < fuel) :
    ∃ t, lingerEnds tick (.ms d) emptyAt fuel 0 = some t ∧ t < d + tick
      ∧ (t < d → ∃ e, emptyAt = some e ∧ e ≤ t) := by
  apply lingerEnds_ms tick d emptyAt fuel 0
  · omega
  · rw [Nat.zero_add]
    have h1 : tick * ((d + tick - 1) / tick) + (d + tick - 1) % tick = d + tick - 1 := Nat.div_add_mod _ tick
    have h2 : (d + tick - 1) % tick < tick := Nat.mod_lt _ ht
    have h3 : ((d + tick - 1) / tick + 1) * tick ≤ fuel * tick := Nat.mul_le_mul_right tick (by omega)
    have h4 : ((d + tick - 1) / tick + 1) * tick = (d + tick - 1) / tick * tick + tick := Nat.succ_mul _ _
    have h5 : tick * ((d + tick - 1) / tick) = (d + tick - 1) / tick * tick := Nat.mul_comm _ _
    generalize (d + tick - 1) / tick * tick = x at h3 h4 h5
    generalize tick * ((d + tick - 1) / tick) = y at h1 h5
    omega

-- ---------------------------------------------------------------------------------------------
-- what the peer has been sent
-- ---------------------------------------------------------------------------------------------

/-- with no priority chunks, written and still buffered bytes together are exactly the data bytes -/
theorem written_pending_dataBytes (e : Egress) (ha : e.Aligned) (hn : e.NoPrio) :
    e.written ++ e.pendingBytes = e.dataBytes := by
  rw [noPrio_dataBytes e hn, ha.1]
  cases hc : e.chunks with
  | nil => simp [Egress.pendingBytes, hc]
  | cons h rest =>
    simp only [Egress.pendingBytes, hc, List.head?_cons, Option.map_some, Option.getD_some, List.map_append,
      List.map_cons, List.flatten_append, List.flatten_cons, List.append_assoc]
    rw [← List.append_assoc (List.take _ _), List.take_append_drop]

/-- no control traffic: what is written, what is buffered, the carry-over and the pipe are the accepted messages -/
theorem SendPath.run_flushed (cfg : BatchCfg) (evs : List SendEv) (hctl : ∀ e ∈ evs, ∀ f, e ≠ .control f) :
    (SendPath.run { cfg := cfg } evs).sentAtClose true = frameBatch (SendPath.run { cfg := cfg } evs).accepted := by
  rw [← SendPath.run_fifo cfg evs, SendPath.wire,
    ← written_pending_dataBytes _ (SendPath.run_aligned cfg evs) (SendPath.run_noPrio cfg evs hctl)]
  simp [SendPath.sentAtClose]

/-- no control traffic: what is written is a prefix of the framing of the accepted messages -/
theorem SendPath.run_written_prefix (cfg : BatchCfg) (evs : List SendEv) (hctl : ∀ e ∈ evs, ∀ f, e ≠ .control f) :
    (SendPath.run { cfg := cfg } evs).egress.written <+: frameBatch (SendPath.run { cfg := cfg } evs).accepted := by
  rw [← SendPath.run_flushed cfg evs hctl]
  simp only [SendPath.sentAtClose, if_true, List.append_assoc]
  exact List.prefix_append _ _

/-- decoding any prefix of the encoding of a frame sequence yields a prefix of the sequence -/
theorem decodeAll_prefix_of_encoded (max : Int) (fs : List Frame) (bytes : List UInt8)
    (hok : ∀ f ∈ fs, C03.FrameOk f) (hmax : ∀ f ∈ fs, C03.Admits max f)
    (hp : bytes <+: (fs.map encodeCodec).flatten) :
    (decodeAll max bytes).1 <+: fs := by
  obtain ⟨b, hb⟩ := hp
  have h := C03.decode_prefix_monotone max bytes b
  rw [hb, C03.decodeAll_encode max fs hok hmax] at h
  exact h

theorem SendPath.run_close_prefix (cfg : BatchCfg) (evs : List SendEv) (max : Int) (k : Nat)
    (hctl : ∀ e ∈ evs, ∀ f, e ≠ .control f)
    (hok : ∀ m ∈ (SendPath.run { cfg := cfg } evs).accepted, ∀ f ∈ m, C03.FrameOk f ∧ C03.Admits max f) :
    (decodeAll max (((SendPath.run { cfg := cfg } evs).sentAtClose false).take k)).1
      <+: (SendPath.run { cfg := cfg } evs).accepted.flatten := by
  apply decodeAll_prefix_of_encoded
  · intro f hf
    obtain ⟨m, hm, hfm⟩ := List.mem_flatten.mp hf
    exact (hok m hm f hfm).1
  · intro f hf
    obtain ⟨m, hm, hfm⟩ := List.mem_flatten.mp hf
    exact (hok m hm f hfm).2
  · rw [← C03.frameContiguous_eq]
    have h := SendPath.run_written_prefix cfg evs hctl
    simp only [frameBatch] at h
    simp only [SendPath.sentAtClose, Bool.false_eq_true, if_false]
    exact List.IsPrefix.trans (List.take_prefix _ _) h

end Rzmq
