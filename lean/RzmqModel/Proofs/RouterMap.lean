import RzmqModel.Model.Routing
/-! Helper lemmas for C11 (ROUTER identity map refinement, envelope algebra). -/
namespace Rzmq

-- ---------------------------------------------------------------------------------------------
-- association-list lookups
-- ---------------------------------------------------------------------------------------------

section AssocList
variable {κ ν : Type} [BEq κ] [LawfulBEq κ] [DecidableEq κ]

omit [LawfulBEq κ] [DecidableEq κ] in
theorem amGet_nil (k : κ) : amGet ([] : List (κ × ν)) k = none := rfl

theorem amGet_cons (k' : κ) (v' : ν) (m : List (κ × ν)) (k : κ) :
    amGet ((k', v') :: m) k = if k' = k then some v' else amGet m k := by
  by_cases h : k' = k <;> simp [amGet, h]

theorem amGet_amInsert (m : List (κ × ν)) (k : κ) (v : ν) (k' : κ) :
    amGet (amInsert m k v) k' = if k = k' then some v else amGet m k' := by
  induction m with
  | nil => simp [amInsert, amGet_cons, amGet_nil]
  | cons e m ih =>
    obtain ⟨a, b⟩ := e
    simp only [amInsert]
    by_cases h : a = k
    · subst h
      simp only [BEq.rfl, if_true, amGet_cons]
      by_cases h2 : a = k' <;> simp [h2]
    · have : (a == k) = false := by simpa using h
      simp only [this, Bool.false_eq_true, if_false, amGet_cons, ih]
      by_cases h2 : a = k'
      · subst h2
        have : ¬ k = a := fun e => h e.symm
        simp [this]
      · simp [h2]

theorem amGet_amRemove (m : List (κ × ν)) (k k' : κ) :
    amGet (amRemove m k) k' = if k = k' then none else amGet m k' := by
  induction m with
  | nil => simp [amRemove, amGet_nil]
  | cons e m ih =>
    obtain ⟨a, b⟩ := e
    simp only [amRemove] at ih ⊢
    by_cases h : a = k
    · subst h
      simp only [List.filter_cons, BEq.rfl, Bool.not_true, Bool.false_eq_true, if_false, ih, amGet_cons]
      by_cases h2 : a = k' <;> simp [h2]
    · have : (a == k) = false := by simpa using h
      simp only [List.filter_cons, this, Bool.not_false, if_true, amGet_cons, ih]
      by_cases h2 : a = k'
      · subst h2; simp [Ne.symm h]
      · simp [h2]

theorem amGet_mem (m : List (κ × ν)) (k : κ) (v : ν) (h : amGet m k = some v) : (k, v) ∈ m := by
  induction m with
  | nil => simp [amGet_nil] at h
  | cons e m ih =>
    obtain ⟨a, b⟩ := e
    rw [amGet_cons] at h
    by_cases h2 : a = k
    · subst h2; simp at h; subst h; simp
    · simp [h2] at h; exact List.mem_cons_of_mem _ (ih h)

end AssocList

-- ---------------------------------------------------------------------------------------------
-- ROUTER identity map: refinement invariants
-- ---------------------------------------------------------------------------------------------

abbrev RSpec := List (Nat × (Ident × PeerInfo))

/-- holds after EVERY history: the reverse map is exact, the forward map is sound -/
def RouterInv (m : RouterMap) (sp : RSpec) : Prop :=
  (∀ pipe id, amGet m.rev pipe = some id ↔ ∃ info, amGet sp pipe = some (id, info)) ∧
  (∀ id info, amGet m.fwd id = some info → amGet sp info.pipe = some (id, info))

/-- holds additionally after collision-free histories: the forward map is complete -/
def RouterInvCF (m : RouterMap) (sp : RSpec) : Prop :=
  (∀ pipe id info, amGet sp pipe = some (id, info) → amGet m.fwd id = some info) ∧
  (∀ pipe id info, amGet sp pipe = some (id, info) → info.pipe = pipe)

theorem RouterInv.init : RouterInv {} [] := by
  refine ⟨?_, ?_⟩ <;> simp [amGet_nil]

theorem RouterInvCF.init : RouterInvCF {} [] := by
  refine ⟨?_, ?_⟩ <;> simp [amGet_nil]

/-- what "no collision" means semantically -/
theorem noCollision_of_any (sp : RSpec) (pipe : Nat) (id : Ident)
    (h : (sp.any fun e => e.1 != pipe && e.2.1 == id) = false) :
    ∀ p i, amGet sp p = some (id, i) → p = pipe := by
  intro p i hg
  have hm := amGet_mem sp p (id, i) hg
  rw [List.any_eq_false] at h
  have := h _ hm
  simpa using this

theorem ownedBy_iff (fwd : List (Ident × PeerInfo)) (id : Ident) (pipe : Nat) :
    ownedBy fwd id pipe = true ↔ ∃ i, amGet fwd id = some i ∧ i.pipe = pipe := by
  unfold ownedBy
  cases amGet fwd id with
  | none => simp
  | some i => simp

/-- the forward map after dropping the pipe's previous identity (if it changes and the pipe owns it) -/
def remFwd (m : RouterMap) (pipe : Nat) (id : Ident) : List (Ident × PeerInfo) :=
  match amGet m.rev pipe with
  | some oldId => if oldId != id && ownedBy m.fwd oldId pipe then amRemove m.fwd oldId else m.fwd
  | none => m.fwd

theorem remFwd_some (m : RouterMap) (pipe : Nat) (id k : Ident) (i : PeerInfo)
    (h : amGet (remFwd m pipe id) k = some i) :
    amGet m.fwd k = some i ∧ ¬ (amGet m.rev pipe = some k ∧ k ≠ id ∧ i.pipe = pipe) := by
  unfold remFwd at h
  cases hold : amGet m.rev pipe with
  | none => simp only [hold] at h; exact ⟨h, by simp⟩
  | some oldId =>
    simp only [hold] at h
    by_cases hc : (oldId != id && ownedBy m.fwd oldId pipe) = true
    · simp only [hc, if_true, amGet_amRemove] at h
      by_cases hk : oldId = k
      · simp [hk] at h
      · simp only [hk, if_false] at h
        exact ⟨h, by simp [hk]⟩
    · simp only [hc] at h
      refine ⟨h, ?_⟩
      rintro ⟨e, hne, hp⟩
      simp only [Option.some.injEq] at e
      subst e
      apply hc
      simp only [Bool.and_eq_true, bne_iff_ne, ne_eq]
      exact ⟨hne, (ownedBy_iff _ _ _).2 ⟨i, h, hp⟩⟩

theorem remFwd_of_some (m : RouterMap) (pipe : Nat) (id k : Ident) (i : PeerInfo)
    (h : amGet m.fwd k = some i) (hn : ¬ (amGet m.rev pipe = some k ∧ k ≠ id ∧ i.pipe = pipe)) :
    amGet (remFwd m pipe id) k = some i := by
  unfold remFwd
  cases hold : amGet m.rev pipe with
  | none => exact h
  | some oldId =>
    simp only
    by_cases hc : (oldId != id && ownedBy m.fwd oldId pipe) = true
    · simp only [hc, if_true, amGet_amRemove]
      by_cases hk : oldId = k
      · exfalso
        subst hk
        simp only [Bool.and_eq_true, bne_iff_ne, ne_eq] at hc
        obtain ⟨i', hi', hp⟩ := (ownedBy_iff _ _ _).1 hc.2
        rw [h] at hi'
        simp only [Option.some.injEq] at hi'
        subst hi'
        exact hn ⟨hold, hc.1, hp⟩
      · simp only [hk, if_false]; exact h
    · simp only [hc]; exact h

/-- canonical form of `addPeer` / `updateIdentity` -/
theorem RouterInv.insert (m : RouterMap) (sp : RSpec) (pipe : Nat) (id : Ident) (info : PeerInfo)
    (hip : info.pipe = pipe) (hinv : RouterInv m sp) :
    RouterInv { fwd := amInsert (remFwd m pipe id) id info, rev := amInsert m.rev pipe id }
      (amInsert sp pipe (id, info)) := by
  obtain ⟨hA, hB⟩ := hinv
  refine ⟨?_, ?_⟩
  · intro p id'
    simp only [amGet_amInsert]
    by_cases hpp : pipe = p
    · simp [hpp]
    · simp only [hpp, if_false]; exact hA p id'
  · intro id' info'
    simp only [amGet_amInsert]
    by_cases hid : id = id'
    · subst hid
      simp only [if_true, Option.some.injEq]
      intro e; subst e
      simp [hip]
    · simp only [hid, if_false]
      intro h
      obtain ⟨hf, hn⟩ := remFwd_some m pipe id id' info' h
      have hs := hB _ _ hf
      by_cases hpp : pipe = info'.pipe
      · exfalso
        apply hn
        refine ⟨(hA pipe id').2 ⟨info', hpp ▸ hs⟩, fun e => hid e.symm, hpp.symm⟩
      · simp only [hpp, if_false]; exact hs

theorem RouterInvCF.insert (m : RouterMap) (sp : RSpec) (pipe : Nat) (id : Ident) (info : PeerInfo)
    (hip : info.pipe = pipe) (hcf : RouterInvCF m sp)
    (hnc : ∀ p i, amGet sp p = some (id, i) → p = pipe) :
    RouterInvCF { fwd := amInsert (remFwd m pipe id) id info, rev := amInsert m.rev pipe id }
      (amInsert sp pipe (id, info)) := by
  obtain ⟨hC, hD⟩ := hcf
  refine ⟨?_, ?_⟩
  · intro p id' info'
    simp only [amGet_amInsert]
    by_cases hpp : pipe = p
    · simp only [hpp, if_true, Option.some.injEq, Prod.mk.injEq]
      rintro ⟨e1, e2⟩
      simp [e1, e2]
    · simp only [hpp, if_false]
      intro hs
      have hid : id ≠ id' := by
        intro e; subst e; exact hpp (hnc p _ hs).symm
      simp only [hid, if_false]
      refine remFwd_of_some m pipe id id' info' (hC _ _ _ hs) ?_
      rintro ⟨_, _, hp⟩
      exact hpp ((hD _ _ _ hs).symm.trans hp).symm
  · intro p id' info'
    simp only [amGet_amInsert]
    by_cases hpp : pipe = p
    · simp only [hpp, if_true, Option.some.injEq, Prod.mk.injEq]
      rintro ⟨_, e2⟩
      rw [← e2, hip, hpp]
    · simp only [hpp, if_false]; exact hD p id' info'

theorem updateIdentity_eq (m : RouterMap) (pipe : Nat) (id : Ident) (uri : Nat) (s : Strat) :
    m.updateIdentity pipe id uri s
      = { fwd := amInsert (remFwd m pipe id) id { uri := uri, strat := s, pipe := pipe },
          rev := amInsert m.rev pipe id } := rfl

/-- `addPeer` inserts first and removes afterwards; the lookups agree with the canonical form -/
theorem addPeer_fwd_get (m : RouterMap) (pipe : Nat) (id : Ident) (uri : Nat) (k : Ident) :
    amGet (m.addPeer id pipe uri).fwd k
      = amGet (amInsert (remFwd m pipe id) id { uri := uri, strat := .default, pipe := pipe }) k := by
  simp only [RouterMap.addPeer, remFwd]
  cases amGet m.rev pipe with
  | none => rfl
  | some oldId =>
    simp only
    by_cases hoi : oldId = id
    · subst hoi; simp
    · have hb : (oldId != id) = true := by simpa using hoi
      have hown : ownedBy (amInsert m.fwd id { uri := uri, strat := .default, pipe := pipe }) oldId pipe
          = ownedBy m.fwd oldId pipe := by
        have : ¬ id = oldId := fun e => hoi e.symm
        simp [ownedBy, amGet_amInsert, this]
      simp only [hb, hown, Bool.true_and]
      cases ownedBy m.fwd oldId pipe with
      | false => simp
      | true =>
        simp only [if_true, amGet_amInsert, amGet_amRemove]
        by_cases h1 : id = k
        · subst h1; simp [hoi]
        · simp [h1]

theorem addPeer_rev (m : RouterMap) (pipe : Nat) (id : Ident) (uri : Nat) :
    (m.addPeer id pipe uri).rev = amInsert m.rev pipe id := by
  simp only [RouterMap.addPeer]
  cases amGet m.rev pipe with
  | none => rfl
  | some oldId => simp only; split <;> rfl

theorem RouterInv.updateIdentity (m : RouterMap) (sp : RSpec) (pipe : Nat)
    (id : Ident) (uri : Nat) (s : Strat) (hinv : RouterInv m sp) :
    RouterInv (m.updateIdentity pipe id uri s)
      (amInsert sp pipe (id, { uri := uri, strat := s, pipe := pipe })) :=
  RouterInv.insert m sp pipe id _ rfl hinv

theorem RouterInvCF.updateIdentity (m : RouterMap) (sp : RSpec) (pipe : Nat)
    (id : Ident) (uri : Nat) (s : Strat) (hcf : RouterInvCF m sp)
    (hnc : ∀ p i, amGet sp p = some (id, i) → p = pipe) :
    RouterInvCF (m.updateIdentity pipe id uri s)
      (amInsert sp pipe (id, { uri := uri, strat := s, pipe := pipe })) :=
  RouterInvCF.insert m sp pipe id _ rfl hcf hnc

theorem RouterInv.addPeer (m : RouterMap) (sp : RSpec) (pipe : Nat)
    (id : Ident) (uri : Nat) (hinv : RouterInv m sp) :
    RouterInv (m.addPeer id pipe uri)
      (amInsert sp pipe (id, { uri := uri, strat := .default, pipe := pipe })) := by
  obtain ⟨hA, hB⟩ := RouterInv.insert m sp pipe id { uri := uri, strat := .default, pipe := pipe } rfl hinv
  refine ⟨?_, ?_⟩
  · intro p id'; rw [addPeer_rev]; exact hA p id'
  · intro id' info'; rw [addPeer_fwd_get]; exact hB id' info'

theorem RouterInvCF.addPeer (m : RouterMap) (sp : RSpec) (pipe : Nat)
    (id : Ident) (uri : Nat) (hcf : RouterInvCF m sp)
    (hnc : ∀ p i, amGet sp p = some (id, i) → p = pipe) :
    RouterInvCF (m.addPeer id pipe uri)
      (amInsert sp pipe (id, { uri := uri, strat := .default, pipe := pipe })) := by
  obtain ⟨hC, hD⟩ :=
    RouterInvCF.insert m sp pipe id { uri := uri, strat := .default, pipe := pipe } rfl hcf hnc
  refine ⟨?_, hD⟩
  intro p id' info'; rw [addPeer_fwd_get]; exact hC p id' info'

/-- lookups in the forward map after `removeByPipe` -/
theorem removeByPipe_fwd_get (m : RouterMap) (pipe : Nat) (k : Ident) :
    amGet (m.removeByPipe pipe).fwd k
      = if amGet m.rev pipe = some k ∧ ownedBy m.fwd k pipe = true then none else amGet m.fwd k := by
  simp only [RouterMap.removeByPipe]
  cases hold : amGet m.rev pipe with
  | none => simp
  | some id =>
    simp only [Option.some.injEq]
    by_cases hk : id = k
    · subst hk
      simp only [true_and, ownedBy]
      cases hf : amGet m.fwd id with
      | none => simp [hf]
      | some info =>
        simp only
        by_cases hp : info.pipe = pipe
        · simp [hp, amGet_amRemove]
        · have : (info.pipe != pipe) = true := by simpa using hp
          simp [this, hp, hf]
    · simp only [hk, false_and, if_false]
      cases hf : amGet m.fwd id with
      | none => rfl
      | some info =>
        simp only
        split
        · rfl
        · simp [amGet_amRemove, hk]

theorem removeByPipe_rev_get (m : RouterMap) (pipe p : Nat) :
    amGet (m.removeByPipe pipe).rev p = if pipe = p then none else amGet m.rev p := by
  simp only [RouterMap.removeByPipe]
  cases hold : amGet m.rev pipe with
  | none =>
    by_cases hpp : pipe = p
    · subst hpp; simp [hold]
    · simp [hpp]
  | some id =>
    simp only
    cases amGet m.fwd id with
    | none => simp only [amGet_amRemove]
    | some info => simp only; split <;> simp only [amGet_amRemove]

theorem RouterInv.removeByPipe (m : RouterMap) (sp : RSpec) (pipe : Nat)
    (hinv : RouterInv m sp) : RouterInv (m.removeByPipe pipe) (amRemove sp pipe) := by
  obtain ⟨hA, hB⟩ := hinv
  refine ⟨?_, ?_⟩
  · intro p id
    rw [removeByPipe_rev_get]
    simp only [amGet_amRemove]
    by_cases hpp : pipe = p
    · simp [hpp]
    · simp only [hpp, if_false]; exact hA p id
  · intro id info
    rw [removeByPipe_fwd_get]
    simp only [amGet_amRemove]
    split
    · intro h; cases h
    · rename_i hn
      intro hf
      have hs := hB _ _ hf
      by_cases hpp : pipe = info.pipe
      · exfalso
        apply hn
        exact ⟨(hA pipe id).2 ⟨info, hpp ▸ hs⟩, (ownedBy_iff _ _ _).2 ⟨info, hf, hpp.symm⟩⟩
      · simp only [hpp, if_false]; exact hs

theorem RouterInvCF.removeByPipe (m : RouterMap) (sp : RSpec) (pipe : Nat)
    (hcf : RouterInvCF m sp) : RouterInvCF (m.removeByPipe pipe) (amRemove sp pipe) := by
  obtain ⟨hC, hD⟩ := hcf
  refine ⟨?_, ?_⟩
  · intro p id info
    rw [removeByPipe_fwd_get]
    simp only [amGet_amRemove]
    by_cases hpp : pipe = p
    · simp [hpp]
    · simp only [hpp, if_false]
      intro hs
      have hf := hC _ _ _ hs
      have hp := hD _ _ _ hs
      split
      · rename_i hy
        obtain ⟨i, hi, hip⟩ := (ownedBy_iff _ _ _).1 hy.2
        rw [hf] at hi
        simp only [Option.some.injEq] at hi
        subst hi
        exact absurd (hip.symm.trans hp) hpp
      · exact hf
  · intro p id info
    simp only [amGet_amRemove]
    by_cases hpp : pipe = p
    · simp [hpp]
    · simp only [hpp, if_false]; exact hD p id info

/-- removing a pipe does not disturb the routability of any identity other than the pipe's own -/
theorem removeByPipe_lookup_other (m : RouterMap) (pipe : Nat) (id : Ident)
    (hid : m.identityOfPipe pipe ≠ some id) : (m.removeByPipe pipe).lookup id = m.lookup id := by
  simp only [RouterMap.identityOfPipe] at hid
  simp only [RouterMap.lookup, removeByPipe_fwd_get, hid, false_and, if_false]

-- ---------------------------------------------------------------------------------------------
-- envelope algebra
-- ---------------------------------------------------------------------------------------------

theorem normFlags_cons_of_ne_nil (a : Frame) (l : List Frame) (h : l ≠ []) :
    normFlags (a :: l) = { a with more := true } :: normFlags l := by
  cases l with
  | nil => exact absurd rfl h
  | cons b l => rfl

theorem clearLastMore_cons_of_ne_nil (a : Frame) (l : List Frame) (h : l ≠ []) :
    clearLastMore (a :: l) = a :: clearLastMore l := by
  cases l with
  | nil => exact absurd rfl h
  | cons b l => rfl

theorem normFlags_ne_nil (l : List Frame) (h : l ≠ []) : normFlags l ≠ [] := by
  match l with
  | [] => exact absurd rfl h
  | [f] => simp [normFlags]
  | f :: g :: rest => simp [normFlags]

theorem normFlags_idem : ∀ l : List Frame, normFlags (normFlags l) = normFlags l
  | [] => rfl
  | [f] => rfl
  | f :: g :: rest => by
    have ih := normFlags_idem (g :: rest)
    have hne : normFlags (g :: rest) ≠ [] := normFlags_ne_nil _ (by simp)
    rw [normFlags_cons_of_ne_nil f (g :: rest) (by simp), normFlags_cons_of_ne_nil _ _ hne, ih]

theorem clearLastMore_normFlags : ∀ l : List Frame, clearLastMore (normFlags l) = normFlags l
  | [] => rfl
  | [f] => rfl
  | f :: g :: rest => by
    have ih := clearLastMore_normFlags (g :: rest)
    have hne : normFlags (g :: rest) ≠ [] := normFlags_ne_nil _ (by simp)
    rw [normFlags_cons_of_ne_nil f (g :: rest) (by simp), clearLastMore_cons_of_ne_nil _ _ hne, ih]

theorem clearLastMore_of_normFlags_eq (l : List Frame) (h : normFlags l = l) : clearLastMore l = l := by
  rw [← h, clearLastMore_normFlags]

theorem map_payload_normFlags : ∀ l : List Frame, (normFlags l).map (·.payload) = l.map (·.payload)
  | [] => rfl
  | [f] => rfl
  | f :: g :: rest => by
    have ih := map_payload_normFlags (g :: rest)
    rw [normFlags_cons_of_ne_nil f (g :: rest) (by simp), List.map_cons, ih]
    rfl

theorem isEmpty_eq_false_of_ne_nil {α : Type} (l : List α) (h : l ≠ []) : l.isEmpty = false := by
  cases l with
  | nil => exact absurd rfl h
  | cons a l => rfl

end Rzmq
