import RzmqModel.Model.Routing
/-! Helper lemmas for C11 (ROUTER identity map refinement, envelope algebra). -/
namespace Rzmq

-- ---------------------------------------------------------------------------------------------
-- association-list lookups
-- ---------------------------------------------------------------------------------------------

section AssocList
variable {κ ν : Type} [BEq κ] [LawfulBEq κ] [DecidableEq κ]

omit [LawfulBEq κ] [DecidableEq κ] in
theorem amGet_nil (k : κ) : amGet ([] : List (κ × ν)) k = none := rfl

theorem amGet_cons (k' : κ) (v' : ν) (m : List (κ × ν)) (k : κ) :
    amGet ((k', v') :: m) k = if k' = k then some v' else amGet m k := by
  by_cases h : k' = k <;> simp [amGet, h]

theorem amGet_amInsert (m : List (κ × ν)) (k : κ) (v : ν) (k' : κ) :
    amGet (amInsert m k v) k' = if k = k' then some v else amGet m k' := by
  induction m with
  | nil => simp [amInsert, amGet_cons, amGet_nil]
  | cons e m ih =>
    obtain ⟨a, b⟩ := e
    simp only [amInsert]
    by_cases h : a = k
    · subst h
      simp only [BEq.rfl, if_true, amGet_cons]
      by_cases h2 : a = k' <;> simp [h2]
    · have : (a == k) = false := by simpa using h
      simp only [this, Bool.false_eq_true, if_false, amGet_cons, ih]
      by_cases h2 : a = k'
      · subst h2
        have : ¬ k = a := fun e => h e.symm
        simp [this]
      · simp [h2]

theorem amGet_amRemove (m : List (κ × ν)) (k k' : κ) :
    amGet (amRemove m k) k' = if k = k' then none else amGet m k' := by
  induction m with
  | nil => simp [amRemove, amGet_nil]
  | cons e m ih =>
    obtain ⟨a, b⟩ := e
    simp only [amRemove] at ih ⊢
    by_cases h : a = k
    · subst h
      simp only [List.filter_cons, BEq.rfl, Bool.not_true, Bool.false_eq_true, if_false, ih, amGet_cons]
      by_cases h2 : a = k' <;> simp [h2]
    · have : (a == k) = false := by simpa using h
      simp only [List.filter_cons, this, Bool.not_false, if_true, amGet_cons, ih]
      by_cases h2 : a = k'
      · subst h2; simp [Ne.symm h]
      · simp [h2]

theorem amGet_mem (m : List (κ × ν)) (k : κ) (v : ν) (h : amGet m k = some v) : (k, v) ∈ m := by
  induction m with
  | nil => simp [amGet_nil] at h
  | cons e m ih =>
    obtain ⟨a, b⟩ := e
    rw [amGet_cons] at h
    by_cases h2 : a = k
    · subst h2; simp at h; subst h; simp
    · simp [h2] at h; exact List.mem_cons_of_mem _ (ih h)

end AssocList

-- ---------------------------------------------------------------------------------------------
-- ROUTER identity map: refinement invariant
-- ---------------------------------------------------------------------------------------------

/-- implementation state `m` represents specification state `sp` -/
def RouterInv (m : RouterMap) (sp : List (Nat × (Ident × PeerInfo))) : Prop :=
  (∀ id info, amGet m.fwd id = some info ↔ ∃ pipe, amGet sp pipe = some (id, info)) ∧
  (∀ pipe id, amGet m.rev pipe = some id ↔ ∃ info, amGet sp pipe = some (id, info)) ∧
  (∀ p1 p2 id i1 i2, amGet sp p1 = some (id, i1) → amGet sp p2 = some (id, i2) → p1 = p2)

theorem RouterInv.init : RouterInv {} [] := by
  refine ⟨?_, ?_, ?_⟩ <;> simp [amGet_nil]

/-- what "no collision" means semantically -/
theorem noCollision_of_any (sp : List (Nat × (Ident × PeerInfo))) (pipe : Nat) (id : Ident)
    (h : (sp.any fun e => e.1 != pipe && e.2.1 == id) = false) :
    ∀ p i, amGet sp p = some (id, i) → p = pipe := by
  intro p i hg
  have hm := amGet_mem sp p (id, i) hg
  rw [List.any_eq_false] at h
  have := h _ hm
  simpa using this

theorem RouterInv.insert (m : RouterMap) (sp : List (Nat × (Ident × PeerInfo))) (pipe : Nat) (id : Ident)
    (info : PeerInfo) (hinv : RouterInv m sp)
    (hnc : ∀ p i, amGet sp p = some (id, i) → p = pipe) :
    RouterInv
      { fwd := amInsert (match amGet m.rev pipe with
                  | some oldId => if oldId != id then amRemove m.fwd oldId else m.fwd
                  | none => m.fwd) id info,
        rev := amInsert m.rev pipe id }
      (amInsert sp pipe (id, info)) := by
  obtain ⟨hA, hB, hC⟩ := hinv
  refine ⟨?_, ?_, ?_⟩
  · intro id' info'
    simp only [amGet_amInsert]
    by_cases hid : id = id'
    · subst hid
      simp only [if_true]
      constructor
      · intro h
        simp only [Option.some.injEq] at h
        exact ⟨pipe, by simp [h]⟩
      · rintro ⟨p, hp⟩
        by_cases hpp : pipe = p
        · simpa [hpp] using hp
        · simp only [hpp, if_false] at hp
          exact absurd (hnc p _ hp).symm hpp
    · simp only [hid, if_false]
      cases hold : amGet m.rev pipe with
      | none =>
        simp only
        rw [hA]
        have hnone : ∀ x, amGet sp pipe ≠ some x := by
          intro x hx
          have := (hB pipe x.1).2 ⟨x.2, hx⟩
          simp [hold] at this
        constructor
        · rintro ⟨p, hp⟩
          refine ⟨p, ?_⟩
          have : pipe ≠ p := by intro e; subst e; exact hnone _ hp
          simp [this, hp]
        · rintro ⟨p, hp⟩
          by_cases hpp : pipe = p
          · simp [hpp, hid] at hp
          · exact ⟨p, by simpa [hpp] using hp⟩
      | some oldId =>
        obtain ⟨oinfo, ho⟩ := (hB pipe oldId).1 hold
        simp only
        by_cases hoi : oldId = id
        · subst hoi
          simp only [bne_self_eq_false, Bool.false_eq_true, if_false]
          rw [hA]
          constructor
          · rintro ⟨p, hp⟩
            have : pipe ≠ p := by
              intro e; subst e; rw [ho] at hp; simp at hp; exact hid hp.1
            exact ⟨p, by simp [this, hp]⟩
          · rintro ⟨p, hp⟩
            by_cases hpp : pipe = p
            · simp [hpp, hid] at hp
            · exact ⟨p, by simpa [hpp] using hp⟩
        · have hb : (oldId != id) = true := by simpa using hoi
          simp only [hb, if_true, amGet_amRemove]
          by_cases hoi' : oldId = id'
          · subst hoi'
            simp only [if_true]
            constructor
            · intro h; cases h
            · rintro ⟨p, hp⟩
              by_cases hpp : pipe = p
              · simp [hpp, hid] at hp
              · simp only [hpp, if_false] at hp
                exact absurd (hC _ _ _ _ _ ho hp) hpp
          · simp only [hoi', if_false]
            rw [hA]
            constructor
            · rintro ⟨p, hp⟩
              have : pipe ≠ p := by
                intro e; subst e; rw [ho] at hp; simp at hp; exact hoi' hp.1
              exact ⟨p, by simp [this, hp]⟩
            · rintro ⟨p, hp⟩
              by_cases hpp : pipe = p
              · simp [hpp, hid] at hp
              · exact ⟨p, by simpa [hpp] using hp⟩
  · intro p id'
    simp only [amGet_amInsert]
    by_cases hpp : pipe = p
    · simp [hpp]
    · simp only [hpp, if_false]; exact hB p id'
  · intro p1 p2 id' i1 i2
    simp only [amGet_amInsert]
    by_cases h1 : pipe = p1 <;> by_cases h2 : pipe = p2
    · intros; omega
    · subst h1
      rw [if_pos rfl, if_neg h2]
      intro e1 e2
      simp only [Option.some.injEq, Prod.mk.injEq] at e1
      rw [← e1.1] at e2
      exact (hnc _ _ e2).symm
    · subst h2
      rw [if_pos rfl, if_neg h1]
      intro e1 e2
      simp only [Option.some.injEq, Prod.mk.injEq] at e2
      rw [← e2.1] at e1
      exact hnc _ _ e1
    · simp only [h1, h2, if_false]
      exact hC p1 p2 id' i1 i2

/-- `RouterInv` only looks at the maps through `amGet` -/
theorem RouterInv.congr (m m' : RouterMap) (sp : List (Nat × (Ident × PeerInfo)))
    (hf : ∀ k, amGet m'.fwd k = amGet m.fwd k) (hr : ∀ k, amGet m'.rev k = amGet m.rev k)
    (h : RouterInv m sp) : RouterInv m' sp := by
  obtain ⟨hA, hB, hC⟩ := h
  refine ⟨?_, ?_, hC⟩
  · intro id info; rw [hf]; exact hA id info
  · intro p id; rw [hr]; exact hB p id

theorem RouterInv.updateIdentity (m : RouterMap) (sp : List (Nat × (Ident × PeerInfo))) (pipe : Nat)
    (id : Ident) (uri : Nat) (s : Strat) (hinv : RouterInv m sp)
    (hnc : ∀ p i, amGet sp p = some (id, i) → p = pipe) :
    RouterInv (m.updateIdentity pipe id uri s) (amInsert sp pipe (id, { uri := uri, strat := s })) :=
  RouterInv.insert m sp pipe id _ hinv hnc

theorem RouterInv.addPeer (m : RouterMap) (sp : List (Nat × (Ident × PeerInfo))) (pipe : Nat)
    (id : Ident) (uri : Nat) (hinv : RouterInv m sp)
    (hnc : ∀ p i, amGet sp p = some (id, i) → p = pipe) :
    RouterInv (m.addPeer id pipe uri) (amInsert sp pipe (id, { uri := uri, strat := .default })) := by
  refine RouterInv.congr _ _ _ ?_ ?_ (RouterInv.insert m sp pipe id _ hinv hnc)
  · intro k
    simp only [RouterMap.addPeer]
    cases amGet m.rev pipe with
    | none => rfl
    | some oldId =>
      simp only
      by_cases hoi : oldId = id
      · subst hoi; simp
      · have hb : (oldId != id) = true := by simpa using hoi
        simp only [hb, if_true, amGet_amInsert, amGet_amRemove]
        by_cases h1 : id = k
        · subst h1; simp [hoi]
        · simp [h1]
  · intro k
    simp only [RouterMap.addPeer]
    cases amGet m.rev pipe with
    | none => rfl
    | some oldId => simp only; split <;> rfl

theorem RouterInv.removeByPipe (m : RouterMap) (sp : List (Nat × (Ident × PeerInfo))) (pipe : Nat)
    (hinv : RouterInv m sp) : RouterInv (m.removeByPipe pipe) (amRemove sp pipe) := by
  obtain ⟨hA, hB, hC⟩ := hinv
  simp only [RouterMap.removeByPipe]
  cases hold : amGet m.rev pipe with
  | none =>
    have hnone : ∀ x, amGet sp pipe ≠ some x := by
      intro x hx
      have := (hB pipe x.1).2 ⟨x.2, hx⟩
      simp [hold] at this
    have hsame : ∀ p, amGet (amRemove sp pipe) p = amGet sp p := by
      intro p
      rw [amGet_amRemove]
      by_cases hpp : pipe = p
      · subst hpp
        simp only [if_true]
        cases h : amGet sp pipe with
        | none => rfl
        | some x => exact absurd h (hnone x)
      · simp [hpp]
    simp only
    refine ⟨?_, ?_, ?_⟩
    · intro id info; simp only [hsame]; exact hA id info
    · intro p id; simp only [hsame]; exact hB p id
    · intro p1 p2 id i1 i2; simp only [hsame]; exact hC p1 p2 id i1 i2
  | some oldId =>
    obtain ⟨oinfo, ho⟩ := (hB pipe oldId).1 hold
    simp only
    refine ⟨?_, ?_, ?_⟩
    · intro id info
      simp only [amGet_amRemove]
      by_cases hoi : oldId = id
      · subst hoi
        simp only [if_true]
        constructor
        · intro h; cases h
        · rintro ⟨p, hp⟩
          by_cases hpp : pipe = p
          · simp [hpp] at hp
          · simp only [hpp, if_false] at hp
            exact absurd (hC _ _ _ _ _ ho hp) hpp
      · simp only [hoi, if_false]
        rw [hA]
        constructor
        · rintro ⟨p, hp⟩
          have : pipe ≠ p := by
            intro e; subst e; rw [ho] at hp; simp at hp; exact hoi hp.1
          exact ⟨p, by simp [this, hp]⟩
        · rintro ⟨p, hp⟩
          by_cases hpp : pipe = p
          · simp [hpp] at hp
          · exact ⟨p, by simpa [hpp] using hp⟩
    · intro p id
      simp only [amGet_amRemove]
      by_cases hpp : pipe = p
      · simp [hpp]
      · simp only [hpp, if_false]; exact hB p id
    · intro p1 p2 id i1 i2
      simp only [amGet_amRemove]
      by_cases h1 : pipe = p1
      · simp [h1]
      · by_cases h2 : pipe = p2
        · simp [h2]
        · simp only [h1, h2, if_false]; exact hC p1 p2 id i1 i2

/-- removing a pipe does not disturb the routability of any identity other than the pipe's own -/
theorem removeByPipe_lookup_other (m : RouterMap) (pipe : Nat) (id : Ident)
    (hid : m.identityOfPipe pipe ≠ some id) : (m.removeByPipe pipe).lookup id = m.lookup id := by
  simp only [RouterMap.identityOfPipe] at hid
  simp only [RouterMap.removeByPipe, RouterMap.lookup]
  cases hold : amGet m.rev pipe with
  | none => rfl
  | some oldId =>
    simp only [amGet_amRemove]
    have : oldId ≠ id := by intro e; subst e; exact hid hold
    simp [this]

-- ---------------------------------------------------------------------------------------------
-- envelope algebra
-- ---------------------------------------------------------------------------------------------

theorem normFlags_cons_of_ne_nil (a : Frame) (l : List Frame) (h : l ≠ []) :
    normFlags (a :: l) = { a with more := true } :: normFlags l := by
  cases l with
  | nil => exact absurd rfl h
  | cons b l => rfl

theorem clearLastMore_cons_of_ne_nil (a : Frame) (l : List Frame) (h : l ≠ []) :
    clearLastMore (a :: l) = a :: clearLastMore l := by
  cases l with
  | nil => exact absurd rfl h
  | cons b l => rfl

theorem normFlags_ne_nil (l : List Frame) (h : l ≠ []) : normFlags l ≠ [] := by
  match l with
  | [] => exact absurd rfl h
  | [f] => simp [normFlags]
  | f :: g :: rest => simp [normFlags]

theorem normFlags_idem : ∀ l : List Frame, normFlags (normFlags l) = normFlags l
  | [] => rfl
  | [f] => rfl
  | f :: g :: rest => by
    have ih := normFlags_idem (g :: rest)
    have hne : normFlags (g :: rest) ≠ [] := normFlags_ne_nil _ (by simp)
    rw [normFlags_cons_of_ne_nil f (g :: rest) (by simp), normFlags_cons_of_ne_nil _ _ hne, ih]

theorem clearLastMore_normFlags : ∀ l : List Frame, clearLastMore (normFlags l) = normFlags l
  | [] => rfl
  | [f] => rfl
  | f :: g :: rest => by
    have ih := clearLastMore_normFlags (g :: rest)
    have hne : normFlags (g :: rest) ≠ [] := normFlags_ne_nil _ (by simp)
    rw [normFlags_cons_of_ne_nil f (g :: rest) (by simp), clearLastMore_cons_of_ne_nil _ _ hne, ih]

theorem clearLastMore_of_normFlags_eq (l : List Frame) (h : normFlags l = l) : clearLastMore l = l := by
  rw [← h, clearLastMore_normFlags]

theorem map_payload_normFlags : ∀ l : List Frame, (normFlags l).map (·.payload) = l.map (·.payload)
  | [] => rfl
  | [f] => rfl
  | f :: g :: rest => by
    have ih := map_payload_normFlags (g :: rest)
    rw [normFlags_cons_of_ne_nil f (g :: rest) (by simp), List.map_cons, ih]
    rfl

theorem isEmpty_eq_false_of_ne_nil {α : Type} (l : List α) (h : l ≠ []) : l.isEmpty = false := by
  cases l with
  | nil => exact absurd rfl h
  | cons a l => rfl

end Rzmq
