import RzmqModel.Model.Engine
import RzmqModel.Proofs.Wire
/-! Helper lemmas for the engine model (C06: security cannot be bypassed or downgraded).

Structure:
* `run_inv` / `onNetworkBytes_inv` / `feedAll_inv`: generic lifting of a (state, emitted app actions) invariant
  from `step` to `feedAll`;
* `Tr`: a field-level characterisation of every possible `step` (`step_tr`);
* `Inv`: the security invariant, `Inv.init`, `Inv.step`, `feedAll_Inv`.
-/
namespace Rzmq

@[simp] theorem Out.app_append (a b : Out) : (a ++ b).app = a.app ++ b.app := rfl
@[simp] theorem Out.app_empty : ({} : Out).app = [] := rfl

-- ---------------------------------------------------------------------------------------------
-- generic lifting
-- ---------------------------------------------------------------------------------------------

section Lift
variable {spec : AbsSpec} {cfg : Cfg} {P : Eng → List AppAct → Prop}

theorem run_inv
    (hstep : ∀ t s e s' o, P s e → step spec cfg t s = some (s', o) → P s' (e ++ o.app))
    (t fuel : Nat) :
    ∀ s e, P s e → P (run spec cfg t fuel s).1 (e ++ (run spec cfg t fuel s).2.app) := by
  induction fuel with
  | zero => intro s e h; simpa [run] using h
  | succ n ih =>
    intro s e h
    unfold run
    split
    · simpa using h
    · rename_i s' o hs
      have := ih s' _ (hstep t s e s' o h hs)
      simpa [List.append_assoc] using this

theorem onNetworkBytes_inv
    (hacc : ∀ s e d, P s e → P { s with acc := s.acc ++ d } e)
    (hstep : ∀ t s e s' o, P s e → step spec cfg t s = some (s', o) → P s' (e ++ o.app))
    (t : Nat) (s : Eng) (e : List AppAct) (d : Bytes) (h : P s e) :
    P (onNetworkBytes spec cfg t s d).1 (e ++ (onNetworkBytes spec cfg t s d).2.app) := by
  unfold onNetworkBytes
  exact run_inv hstep t _ _ _ (hacc s e d h)

theorem feedAll_inv
    (hacc : ∀ s e d, P s e → P { s with acc := s.acc ++ d } e)
    (hstep : ∀ t s e s' o, P s e → step spec cfg t s = some (s', o) → P s' (e ++ o.app))
    (reads : List (Nat × Bytes)) :
    ∀ s e, P s e → P (feedAll spec cfg s reads).1 (e ++ (feedAll spec cfg s reads).2.app) := by
  induction reads with
  | nil => intro s e h; simpa [feedAll] using h
  | cons r rest ih =>
    intro s e h
    obtain ⟨t, d⟩ := r
    unfold feedAll
    have h1 := onNetworkBytes_inv hacc hstep t s e d h
    have h2 := ih _ _ h1
    simpa [List.append_assoc] using h2

end Lift

-- ---------------------------------------------------------------------------------------------
-- field-level characterisation of `step`
-- ---------------------------------------------------------------------------------------------

/-- Every `step` is one of these transitions (only the fields relevant for security are tracked). -/
inductive Tr (spec : AbsSpec) (cfg : Cfg) (s s' : Eng) (app : List AppAct) : Prop
  | closed (e : ErrClass) (hp : s'.phase = .closed) (hn : s'.gNegotiated = s.gNegotiated)
      (ht : s'.gTokens = s.gTokens)
      (hv : s'.version = s.version ∨ (s'.version = some .v2 ∧ v2Refused cfg = false))
      (ha : app = [.peerError e])
  | greet (h0 : s.phase = .greeting) (hp : s'.phase = .greeting) (hn : s'.gNegotiated = s.gNegotiated)
      (ht : s'.gTokens = s.gTokens) (hv : s'.version = s.version ∨ s'.version = some .v3) (ha : app = [])
  | toV2 (h0 : s.phase = .greeting) (hr : v2Refused cfg = false) (hp : s'.phase = .v2Identity)
      (hv : s'.version = some .v2) (hn : s'.gNegotiated = s.gNegotiated) (ht : s'.gTokens = s.gTokens)
      (ha : app = [])
  | negSec (g : Greeting) (m : Mech) (h0 : s.phase = .greeting) (hneg : negotiate spec cfg g = .ok m)
      (hst : mechStatus spec cfg m ≠ .ready) (hp : s'.phase = .security) (hm : s'.mech = m)
      (hn : s'.gNegotiated = some (mechKindOf m)) (ht : s'.gTokens = s.gTokens)
      (hv : s'.version = s.version) (ha : app = [])
  | negReady (g : Greeting) (m : Mech) (h0 : s.phase = .greeting) (hneg : negotiate spec cfg g = .ok m)
      (hst : mechStatus spec cfg m = .ready) (hp : s'.phase = .ready)
      (hn : s'.gNegotiated = some (mechKindOf m)) (ht : s'.gTokens = s.gTokens)
      (hv : s'.version = s.version) (ha : app = [])
  | produce (t : Bytes) (m' : Mech) (h0 : s.phase = .security)
      (hpr : produceToken spec cfg s.mech = (some t, m')) (hp : s'.phase = .security) (hm : s'.mech = m')
      (hn : s'.gNegotiated = s.gNegotiated) (ht : s'.gTokens = s.gTokens)
      (hv : s'.version = s.version) (ha : app = [])
  | secReady (h0 : s.phase = .security) (hst : mechStatus spec cfg s.mech = .ready) (hp : s'.phase = .ready)
      (hn : s'.gNegotiated = s.gNegotiated) (ht : s'.gTokens = s.gTokens)
      (hv : s'.version = s.version) (ha : app = [])
  | consume (tok : Bytes) (m' : Mech) (h0 : s.phase = .security)
      (hpt : processToken spec cfg s.mech tok = .ok m') (hp : s'.phase = .security) (hm : s'.mech = m')
      (hn : s'.gNegotiated = s.gNegotiated) (ht : s'.gTokens = s.gTokens ++ [tok])
      (hv : s'.version = s.version) (ha : app = [])
  | readyDone (i st : Option Bytes) (h0 : s.phase = .ready) (hp : s'.phase = .data)
      (hn : s'.gNegotiated = s.gNegotiated) (ht : s'.gTokens = s.gTokens)
      (hv : s'.version = s.version) (ha : app = [.handshakeComplete i st])
  | v2Stay (h0 : s.phase = .v2Identity) (hp : s'.phase = .v2Identity)
      (hn : s'.gNegotiated = s.gNegotiated) (ht : s'.gTokens = s.gTokens)
      (hv : s'.version = s.version) (ha : app = [])
  | v2Done (i st : Option Bytes) (h0 : s.phase = .v2Identity) (hp : s'.phase = .data)
      (hn : s'.gNegotiated = s.gNegotiated) (ht : s'.gTokens = s.gTokens)
      (hv : s'.version = s.version) (ha : app = [.handshakeComplete i st])
  | dataQuiet (h0 : s.phase = .data) (hp : s'.phase = .data)
      (hn : s'.gNegotiated = s.gNegotiated) (ht : s'.gTokens = s.gTokens)
      (hv : s'.version = s.version) (ha : app = [])
  | dataDeliver (m : Message) (h0 : s.phase = .data) (hp : s'.phase = .data)
      (hn : s'.gNegotiated = s.gNegotiated) (ht : s'.gTokens = s.gTokens)
      (hv : s'.version = s.version) (ha : app = [.deliver m])

theorem step_tr {spec : AbsSpec} {cfg : Cfg} {t : Nat} {s s' : Eng} {o : Out}
    (h : step spec cfg t s = some (s', o)) : Tr spec cfg s s' o.app := by
  unfold step at h
  repeat' (first | cases h | split at h | dsimp only at h)
  all_goals first
    | exact Tr.closed _ rfl rfl rfl (Or.inl rfl) rfl
    | exact Tr.closed _ rfl rfl rfl (Or.inr ⟨rfl, by simp_all⟩) rfl
    | exact Tr.greet ‹_› ‹_› rfl rfl (Or.inl rfl) rfl
    | exact Tr.greet ‹_› ‹_› rfl rfl (Or.inr rfl) rfl
    | exact Tr.toV2 ‹_› (by simp_all) rfl rfl rfl rfl rfl
    | exact Tr.negSec _ _ ‹_› ‹_› (by simp_all) rfl rfl rfl rfl rfl rfl
    | exact Tr.negReady _ _ ‹_› ‹_› (by simp_all) rfl rfl rfl rfl rfl
    | exact Tr.produce _ _ ‹_› ‹_› ‹_› rfl rfl rfl rfl rfl
    | exact Tr.secReady ‹_› (by simp_all) rfl rfl rfl rfl rfl
    | exact Tr.consume _ _ ‹_› ‹_› ‹_› rfl rfl rfl rfl rfl
    | exact Tr.readyDone _ _ ‹_› rfl rfl rfl rfl rfl
    | exact Tr.v2Stay ‹_› ‹_› rfl rfl rfl rfl
    | exact Tr.v2Done _ _ ‹_› rfl rfl rfl rfl rfl
    | exact Tr.dataQuiet ‹_› ‹_› rfl rfl rfl rfl
    | exact Tr.dataDeliver _ ‹_› ‹_› rfl rfl rfl rfl

-- ---------------------------------------------------------------------------------------------
-- mechanism-level facts
-- ---------------------------------------------------------------------------------------------

theorem negotiate_sound' {spec : AbsSpec} {cfg : Cfg} {g : Greeting} {m : Mech}
    (h : negotiate spec cfg g = .ok m) :
    mechEnabled cfg (mechKindOf m) = true ∧ mechNameBytes (mechKindOf m) = g.mechanism := by
  unfold negotiate at h
  split at h
  · cases h
  · rename_i k hk
    have hname := List.find?_some hk
    simp only [beq_iff_eq] at hname
    split at h
    · cases h
    · rename_i hen
      have hen : mechEnabled cfg k = true := by simpa using hen
      split at h
      · cases h; exact ⟨hen, hname⟩
      · cases h; exact ⟨hen, hname⟩
      · split at h
        · cases h; exact ⟨hen, hname⟩
        · cases h

/-- a well-formed PLAIN HELLO carrying exactly the configured credentials (same as `C06.IsValidHello`) -/
def ValidHello (cfg : Cfg) (tok : Bytes) : Prop :=
  ∃ body u p, tok = lenPrefixed Gen.plainHello ++ body ∧ parseHello body = some (u, p)
    ∧ cfg.plainUser = some u ∧ cfg.plainPass = some p

def IsWelcome (tok : Bytes) : Prop := ∃ body, tok = lenPrefixed Gen.plainWelcome ++ body

/-- what a completed handshake of mechanism `k` guarantees about the accepted tokens -/
def Final (spec : AbsSpec) (cfg : Cfg) (k : MechKind) (toks : List Bytes) : Prop :=
  match k with
  | .null => True
  | .plain => if cfg.isServer = true then ∃ tok ∈ toks, ValidHello cfg tok else ∃ tok ∈ toks, IsWelcome tok
  | .curve => ∃ n, spec.status .curve cfg.isServer toks n = .ready
  | .noise => ∃ n, spec.status .noise cfg.isServer toks n = .ready

/-- the relation between the mechanism state and the accepted tokens during the security phase -/
def MechTok (cfg : Cfg) (m : Mech) (toks : List Bytes) : Prop :=
  match m with
  | .null => True
  | .plain st =>
    if cfg.isServer = true then
      st = .serverExpectHello ∨ ((st = .serverSendWelcome ∨ st = .ready) ∧ ∃ tok ∈ toks, ValidHello cfg tok)
    else
      st = .clientSendHello ∨ st = .clientExpectWelcome ∨ (st = .ready ∧ ∃ tok ∈ toks, IsWelcome tok)
  | .abs k h _ => h = toks ∧ (k = .curve ∨ k = .noise)

theorem lenPrefixed_of_take {cl : UInt8} {rest name : Bytes} (hl : ¬ rest.length < cl.toNat)
    (hn : rest.take cl.toNat = name) : cl :: rest = lenPrefixed name ++ rest.drop cl.toNat := by
  have hlen : name.length = cl.toNat := by rw [← hn, List.length_take]; omega
  unfold lenPrefixed
  rw [hlen, UInt8.ofNat_toNat, ← hn]
  simp [List.take_append_drop]

theorem negotiate_mechTok {spec : AbsSpec} {cfg : Cfg} {g : Greeting} {m : Mech}
    (h : negotiate spec cfg g = .ok m) : MechTok cfg m [] := by
  unfold negotiate at h
  split at h
  · cases h
  · rename_i k hk
    split at h
    · cases h
    · split at h
      · cases h; trivial
      · cases h
        unfold MechTok
        cases cfg.isServer <;> simp
      · rename_i hnull hplain
        split at h
        · cases h
          refine ⟨rfl, ?_⟩
          cases k <;> simp_all
        · cases h

theorem mechTok_final {spec : AbsSpec} {cfg : Cfg} {m : Mech} {toks : List Bytes}
    (hm : MechTok cfg m toks) (hst : mechStatus spec cfg m = .ready) :
    Final spec cfg (mechKindOf m) toks := by
  cases m with
  | null => trivial
  | plain st =>
    simp only [mechKindOf, Final]
    simp only [MechTok] at hm
    cases st <;> simp [mechStatus] at hst
    split
    · rename_i hsrv; simpa [hsrv] using hm
    · rename_i hsrv; simpa [hsrv] using hm
  | abs k h n =>
    obtain ⟨rfl, hk⟩ := hm
    simp only [mechStatus] at hst
    rcases hk with rfl | rfl
    · exact ⟨n, hst⟩
    · exact ⟨n, hst⟩

theorem produce_mechTok {spec : AbsSpec} {cfg : Cfg} {m m' : Mech} {toks : List Bytes} {t : Bytes}
    (hm : MechTok cfg m toks) (hp : produceToken spec cfg m = (some t, m')) :
    MechTok cfg m' toks ∧ mechKindOf m' = mechKindOf m := by
  cases m with
  | null => simp [produceToken] at hp
  | plain st =>
    cases st <;> simp [produceToken] at hp
    · obtain ⟨_, rfl⟩ := hp
      refine ⟨?_, rfl⟩
      simp only [MechTok] at hm ⊢
      split
      · rename_i hsrv; simp [hsrv] at hm
      · simp
    · obtain ⟨_, rfl⟩ := hp
      refine ⟨?_, rfl⟩
      simp only [MechTok] at hm ⊢
      split
      · rename_i hsrv; simpa [hsrv] using hm
      · rename_i hsrv; simp [hsrv] at hm
  | abs k h n =>
    simp only [produceToken] at hp
    split at hp
    · cases hp; exact ⟨hm, rfl⟩
    · cases hp

theorem process_mechTok {spec : AbsSpec} {cfg : Cfg} {m m' : Mech} {toks : List Bytes} {tok : Bytes}
    (hm : MechTok cfg m toks) (hp : processToken spec cfg m tok = .ok m') :
    MechTok cfg m' (toks ++ [tok]) ∧ mechKindOf m' = mechKindOf m := by
  cases m with
  | null => simp only [processToken] at hp; cases hp; exact ⟨trivial, rfl⟩
  | plain st =>
    simp only [processToken] at hp
    split at hp
    · cases hp
    · rename_i cl rest
      split at hp
      · cases hp
      · rename_i hlen
        split at hp
        · rename_i hsrv
          split at hp
          · split at hp
            · rename_i hname
              simp only [beq_iff_eq] at hname
              split at hp
              · cases hp
              · rename_i u p hparse
                split at hp
                · rename_i hcred
                  cases hp
                  refine ⟨?_, rfl⟩
                  simp only [MechTok, hsrv, if_true]
                  right
                  refine ⟨Or.inl trivial, cl :: rest, by simp, rest.drop cl.toNat, u, p, ?_, hparse, ?_, ?_⟩
                  · exact lenPrefixed_of_take hlen hname
                  · simp only [Bool.and_eq_true, beq_iff_eq] at hcred; exact hcred.1
                  · simp only [Bool.and_eq_true, beq_iff_eq] at hcred; exact hcred.2
                · cases hp
            · cases hp
          · cases hp
        · rename_i hsrv
          split at hp
          · split at hp
            · rename_i hname
              simp only [beq_iff_eq] at hname
              cases hp
              refine ⟨?_, rfl⟩
              simp only [MechTok, hsrv]
              simp only [Bool.false_eq_true, if_false]
              right; right
              exact ⟨trivial, cl :: rest, by simp, rest.drop cl.toNat, lenPrefixed_of_take hlen hname⟩
            · split at hp <;> cases hp
          · cases hp
  | abs k h n =>
    simp only [processToken] at hp
    split at hp
    · cases hp
      obtain ⟨rfl, hk⟩ := hm
      exact ⟨⟨rfl, hk⟩, rfl⟩
    · cases hp

-- ---------------------------------------------------------------------------------------------
-- the security invariant
-- ---------------------------------------------------------------------------------------------

/-- a `HandshakeComplete` has been emitted -/
def HC (e : List AppAct) : Prop := ∃ a ∈ e, isHandshakeComplete a = true

theorem HC_snoc {e : List AppAct} {a : AppAct} : HC (e ++ [a]) ↔ HC e ∨ isHandshakeComplete a = true := by
  unfold HC
  constructor
  · rintro ⟨b, hb, hc⟩
    rcases List.mem_append.1 hb with hb | hb
    · exact Or.inl ⟨b, hb, hc⟩
    · rw [List.mem_singleton] at hb; subst hb; exact Or.inr hc
  · rintro (⟨b, hb, hc⟩ | hc)
    · exact ⟨b, List.mem_append_left _ hb, hc⟩
    · exact ⟨a, by simp, hc⟩

theorem split_snoc {α : Type} {e pre post : List α} {x d : α} (h : e ++ [x] = pre ++ d :: post) :
    (post = [] ∧ e = pre ∧ x = d) ∨ ∃ post', e = pre ++ d :: post' := by
  rcases List.eq_nil_or_concat post with rfl | ⟨post', y, rfl⟩
  · left
    have := List.append_inj' h rfl
    simp_all
  · right
    refine ⟨post', ?_⟩
    have h' : e ++ [x] = (pre ++ d :: post') ++ [y] := by simpa using h
    exact (List.append_inj' h' rfl).1

theorem deliver_snoc {e : List AppAct} {x : AppAct}
    (hd : ∀ pre m post, e = pre ++ AppAct.deliver m :: post → HC pre)
    (hx : isDeliver x = true → HC e) :
    ∀ pre m post, e ++ [x] = pre ++ AppAct.deliver m :: post → HC pre := by
  intro pre m post h
  rcases split_snoc h with ⟨_, rfl, rfl⟩ | ⟨post', rfl⟩
  · exact hx rfl
  · exact hd _ _ _ rfl

def Done (spec : AbsSpec) (cfg : Cfg) (s : Eng) : Prop :=
  ∃ k, s.gNegotiated = some k ∧ mechEnabled cfg k = true ∧ Final spec cfg k s.gTokens

theorem Done.congr {spec : AbsSpec} {cfg : Cfg} {s s' : Eng} (hn : s'.gNegotiated = s.gNegotiated)
    (ht : s'.gTokens = s.gTokens) (h : Done spec cfg s) : Done spec cfg s' := by
  unfold Done at *; rw [hn, ht]; exact h

structure Inv (spec : AbsSpec) (cfg : Cfg) (s : Eng) (e : List AppAct) : Prop where
  data_hc : s.phase = .data → HC e
  nohc : HC e → s.phase = .data ∨ s.phase = .closed
  deliver : ∀ pre m post, e = pre ++ AppAct.deliver m :: post → HC pre
  v2ref : s.version = some .v2 → v2Refused cfg = false
  v2id : s.phase = .v2Identity → s.version = some .v2
  greet : s.phase = .greeting → s.gTokens = []
  sec : s.phase = .security → s.gNegotiated = some (mechKindOf s.mech)
          ∧ mechEnabled cfg (mechKindOf s.mech) = true ∧ MechTok cfg s.mech s.gTokens
  ready : s.phase = .ready → Done spec cfg s
  hc : HC e → s.version = some .v2 ∨ Done spec cfg s

theorem Inv.init (spec : AbsSpec) (cfg : Cfg) : Inv spec cfg Eng.init [] := by
  have hno : ¬ HC [] := by simp [HC]
  refine ⟨?_, ?_, ?_, ?_, ?_, ?_, ?_, ?_, ?_⟩
  · intro h; cases h
  · intro h; exact absurd h hno
  · intro pre m post h; simp at h
  · intro h; cases h
  · intro h; cases h
  · intro _; rfl
  · intro h; cases h
  · intro h; cases h
  · intro h; exact absurd h hno

theorem Inv.acc {spec : AbsSpec} {cfg : Cfg} {s : Eng} {e : List AppAct} (d : Bytes)
    (h : Inv spec cfg s e) : Inv spec cfg { s with acc := s.acc ++ d } e :=
  ⟨h.data_hc, h.nohc, h.deliver, h.v2ref, h.v2id, h.greet, h.sec, h.ready, h.hc⟩

local macro "ph " h:ident : tactic => `(tactic| (intro hph; rw [$h:ident] at hph; cases hph))

theorem Inv.tr {spec : AbsSpec} {cfg : Cfg} {s s' : Eng} {e a : List AppAct}
    (hi : Inv spec cfg s e) (htr : Tr spec cfg s s' a) : Inv spec cfg s' (e ++ a) := by
  have nope : ∀ {p : Phase}, s.phase = p → p ≠ .data → p ≠ .closed → ¬ HC e := by
    intro p h0 h1 h2 h
    rcases hi.nohc h with h | h <;> rw [h0] at h
    · exact h1 h
    · exact h2 h
  have tx : s'.gNegotiated = s.gNegotiated → s'.gTokens = s.gTokens → s'.version = s.version →
      (s.version = some .v2 ∨ Done spec cfg s) → (s'.version = some .v2 ∨ Done spec cfg s') := by
    intro hn ht hv h
    rcases h with h | h
    · left; rw [hv]; exact h
    · right; exact Done.congr hn ht h
  cases htr with
  | closed e0 hp hn ht hv ha =>
    subst ha
    have hce : HC (e ++ [AppAct.peerError e0]) → HC e := fun h =>
      (HC_snoc.1 h).resolve_right (by simp [isHandshakeComplete])
    refine ⟨by ph hp, fun _ => Or.inr hp, deliver_snoc hi.deliver (by simp [isDeliver]), ?_, by ph hp, by ph hp,
      by ph hp, by ph hp, ?_⟩
    · intro h
      rcases hv with hv | ⟨_, hr⟩
      · exact hi.v2ref (hv ▸ h)
      · exact hr
    · intro h
      rcases hi.hc (hce h) with h2 | hd
      · rcases hv with hv | ⟨hv, _⟩
        · left; rw [hv]; exact h2
        · left; exact hv
      · right; exact Done.congr hn ht hd
  | greet h0 hp hn ht hv ha =>
    subst ha; rw [List.append_nil]
    have hno := nope h0 (by decide) (by decide)
    refine ⟨by ph hp, fun h => absurd h hno, hi.deliver, ?_, by ph hp, fun _ => ht.trans (hi.greet h0),
      by ph hp, by ph hp, fun h => absurd h hno⟩
    intro h
    rcases hv with hv | hv
    · exact hi.v2ref (hv ▸ h)
    · rw [hv] at h; cases h
  | toV2 h0 hr hp hv hn ht ha =>
    subst ha; rw [List.append_nil]
    have hno := nope h0 (by decide) (by decide)
    exact ⟨by ph hp, fun h => absurd h hno, hi.deliver, fun _ => hr, fun _ => hv, by ph hp,
      by ph hp, by ph hp, fun h => absurd h hno⟩
  | negSec g m h0 hneg hst hp hm hn ht hv ha =>
    subst ha; rw [List.append_nil]
    have hno := nope h0 (by decide) (by decide)
    refine ⟨by ph hp, fun h => absurd h hno, hi.deliver, fun h => hi.v2ref (hv ▸ h), by ph hp, by ph hp,
      ?_, by ph hp, fun h => absurd h hno⟩
    intro _
    rw [hm, hn, ht, hi.greet h0]
    exact ⟨rfl, (negotiate_sound' hneg).1, negotiate_mechTok hneg⟩
  | negReady g m h0 hneg hst hp hn ht hv ha =>
    subst ha; rw [List.append_nil]
    have hno := nope h0 (by decide) (by decide)
    refine ⟨by ph hp, fun h => absurd h hno, hi.deliver, fun h => hi.v2ref (hv ▸ h), by ph hp, by ph hp,
      by ph hp, ?_, fun h => absurd h hno⟩
    intro _
    refine ⟨mechKindOf m, hn, (negotiate_sound' hneg).1, ?_⟩
    rw [ht, hi.greet h0]
    exact mechTok_final (negotiate_mechTok hneg) hst
  | produce t m' h0 hpr hp hm hn ht hv ha =>
    subst ha; rw [List.append_nil]
    have hno := nope h0 (by decide) (by decide)
    refine ⟨by ph hp, fun h => absurd h hno, hi.deliver, fun h => hi.v2ref (hv ▸ h), by ph hp, by ph hp,
      ?_, by ph hp, fun h => absurd h hno⟩
    intro _
    obtain ⟨h1, h2, h3⟩ := hi.sec h0
    obtain ⟨h4, h5⟩ := produce_mechTok h3 hpr
    rw [hm, hn, ht, h5]
    exact ⟨h1, h2, h4⟩
  | secReady h0 hst hp hn ht hv ha =>
    subst ha; rw [List.append_nil]
    have hno := nope h0 (by decide) (by decide)
    refine ⟨by ph hp, fun h => absurd h hno, hi.deliver, fun h => hi.v2ref (hv ▸ h), by ph hp, by ph hp,
      by ph hp, ?_, fun h => absurd h hno⟩
    intro _
    obtain ⟨h1, h2, h3⟩ := hi.sec h0
    refine ⟨_, hn.trans h1, h2, ?_⟩
    rw [ht]
    exact mechTok_final h3 hst
  | consume tok m' h0 hpt hp hm hn ht hv ha =>
    subst ha; rw [List.append_nil]
    have hno := nope h0 (by decide) (by decide)
    refine ⟨by ph hp, fun h => absurd h hno, hi.deliver, fun h => hi.v2ref (hv ▸ h), by ph hp, by ph hp,
      ?_, by ph hp, fun h => absurd h hno⟩
    intro _
    obtain ⟨h1, h2, h3⟩ := hi.sec h0
    obtain ⟨h4, h5⟩ := process_mechTok (tok := tok) h3 hpt
    rw [hm, hn, ht, h5]
    exact ⟨h1, h2, h4⟩
  | readyDone i st h0 hp hn ht hv ha =>
    subst ha
    exact ⟨fun _ => HC_snoc.2 (Or.inr rfl), fun _ => Or.inl hp,
      deliver_snoc hi.deliver (by simp [isDeliver]), fun h => hi.v2ref (hv ▸ h), by ph hp, by ph hp,
      by ph hp, by ph hp, fun _ => Or.inr (Done.congr hn ht (hi.ready h0))⟩
  | v2Stay h0 hp hn ht hv ha =>
    subst ha; rw [List.append_nil]
    have hno := nope h0 (by decide) (by decide)
    exact ⟨by ph hp, fun h => absurd h hno, hi.deliver, fun h => hi.v2ref (hv ▸ h),
      fun _ => hv.trans (hi.v2id h0), by ph hp, by ph hp, by ph hp, fun h => absurd h hno⟩
  | v2Done i st h0 hp hn ht hv ha =>
    subst ha
    exact ⟨fun _ => HC_snoc.2 (Or.inr rfl), fun _ => Or.inl hp,
      deliver_snoc hi.deliver (by simp [isDeliver]), fun h => hi.v2ref (hv ▸ h), by ph hp, by ph hp,
      by ph hp, by ph hp, fun _ => Or.inl (hv.trans (hi.v2id h0))⟩
  | dataQuiet h0 hp hn ht hv ha =>
    subst ha; rw [List.append_nil]
    exact ⟨fun _ => hi.data_hc h0, fun _ => Or.inl hp, hi.deliver, fun h => hi.v2ref (hv ▸ h), by ph hp,
      by ph hp, by ph hp, by ph hp, fun h => tx hn ht hv (hi.hc h)⟩
  | dataDeliver m h0 hp hn ht hv ha =>
    subst ha
    exact ⟨fun _ => HC_snoc.2 (Or.inl (hi.data_hc h0)), fun _ => Or.inl hp,
      deliver_snoc hi.deliver (fun _ => hi.data_hc h0), fun h => hi.v2ref (hv ▸ h), by ph hp,
      by ph hp, by ph hp, by ph hp, fun _ => tx hn ht hv (hi.hc (hi.data_hc h0))⟩

/-- the invariant holds after any sequence of reads -/
theorem feedAll_Inv (spec : AbsSpec) (cfg : Cfg) (reads : List (Nat × Bytes)) :
    Inv spec cfg (feedAll spec cfg Eng.init reads).1 (feedAll spec cfg Eng.init reads).2.app := by
  have := feedAll_inv (P := Inv spec cfg) (spec := spec) (cfg := cfg)
    (fun s e d h => Inv.acc d h) (fun t s e s' o h hs => Inv.tr h (step_tr hs)) reads Eng.init [] (Inv.init spec cfg)
  simpa using this

end Rzmq
