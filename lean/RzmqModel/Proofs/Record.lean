import RzmqModel.Model.Record
import RzmqModel.Props.C03
/-!
Helper lemmas for `Props/C18.lean` (model: `Model/Record.lean`).
-/
namespace Rzmq

-- ---------------------------------------------------------------------------------------------
-- cutting a plaintext into records
-- ---------------------------------------------------------------------------------------------

theorem chunksOfLimit_flatten (limit : Nat) (hl : 0 < limit) :
    ∀ (fuel : Nat) (p : List UInt8), p.length < fuel → (chunksOfLimit limit fuel p).flatten = p := by
  intro fuel
  induction fuel with
  | zero => intro p h; omega
  | succ fuel ih =>
    intro p h
    unfold chunksOfLimit
    by_cases he : p.isEmpty = true
    · rw [if_pos he]
      rw [List.isEmpty_iff] at he
      rw [he]; rfl
    · rw [if_neg he]
      by_cases hle : p.length ≤ limit
      · rw [if_pos hle]; simp only [List.flatten_cons, List.flatten_nil, List.append_nil]
      · rw [if_neg hle]
        have hlen : (p.drop limit).length < fuel := by
          rw [List.length_drop]; omega
        rw [List.flatten_cons, ih _ hlen, List.take_append_drop]

theorem chunksOfLimit_mem (limit : Nat) (hl : 0 < limit) :
    ∀ (fuel : Nat) (p : List UInt8), ∀ c ∈ chunksOfLimit limit fuel p, c ≠ [] ∧ c.length ≤ limit := by
  intro fuel
  induction fuel with
  | zero => intro p c hc; simp only [chunksOfLimit, List.not_mem_nil] at hc
  | succ fuel ih =>
    intro p c hc
    unfold chunksOfLimit at hc
    by_cases he : p.isEmpty = true
    · rw [if_pos he] at hc; exact absurd hc List.not_mem_nil
    · rw [if_neg he] at hc
      by_cases hle : p.length ≤ limit
      · rw [if_pos hle] at hc
        rw [List.mem_singleton] at hc
        subst hc
        refine ⟨?_, hle⟩
        intro h; rw [h] at he; exact he rfl
      · rw [if_neg hle] at hc
        rcases List.mem_cons.mp hc with h | h
        · subst h
          have hlen : (p.take limit).length = limit := by
            rw [List.length_take]; omega
          refine ⟨?_, by omega⟩
          intro h0; rw [h0] at hlen; simp only [List.length_nil] at hlen; omega
        · exact ih _ c h

theorem recordPieces_flatten (limit : Nat) (p : List UInt8) : (recordPieces limit p).flatten = p := by
  unfold recordPieces
  exact chunksOfLimit_flatten (max limit 1) (by omega) _ _ (by omega)

theorem recordPieces_mem (limit : Nat) (hl : 0 < limit) (p : List UInt8) :
    ∀ c ∈ recordPieces limit p, c ≠ [] ∧ c.length ≤ limit := by
  intro c hc
  unfold recordPieces at hc
  have h := chunksOfLimit_mem (max limit 1) (by omega) _ _ c hc
  have hm : max limit 1 = limit := by omega
  rw [hm] at h
  exact h

-- ---------------------------------------------------------------------------------------------
-- the receiver
-- ---------------------------------------------------------------------------------------------

theorem acceptedRecords_honest_prefix (m : Nat) :
    ∀ (j : Nat) (rest : List WireRec),
      acceptedRecords j ((List.range' j m).map .honest ++ rest)
        = List.range' j m ++ acceptedRecords (j + m) rest := by
  induction m with
  | zero => intro j rest; rfl
  | succ m ih =>
    intro j rest
    rw [List.range'_succ, List.map_cons, List.cons_append, acceptedRecords]
    have ho : opens j (.honest j) = true := by simp only [opens, beq_self_eq_true]
    rw [if_pos ho, ih (j + 1) rest, List.cons_append]
    have : j + 1 + m = j + (m + 1) := by omega
    rw [this]

theorem acceptedRecords_honest (j m : Nat) :
    acceptedRecords j ((List.range' j m).map .honest) = List.range' j m := by
  have h := acceptedRecords_honest_prefix m j []
  rw [List.append_nil] at h
  rw [h]; simp only [acceptedRecords, List.append_nil]

/-- an honest prefix followed by a record that does not open in its slot -/
theorem acceptedRecords_honest_then_bad (j m : Nat) (x : WireRec) (rest : List WireRec)
    (hx : opens (j + m) x = false) :
    acceptedRecords j ((List.range' j m).map .honest ++ x :: rest) = List.range' j m := by
  rw [acceptedRecords_honest_prefix, acceptedRecords, hx]
  simp only [Bool.false_eq_true, if_false, List.append_nil]

/-- the receiver accepts consecutive record numbers starting from its counter -/
theorem acceptedRecords_range' : ∀ (stream : List WireRec) (j : Nat),
    ∃ k, acceptedRecords j stream = List.range' j k := by
  intro stream
  induction stream with
  | nil => intro j; exact ⟨0, rfl⟩
  | cons r rest ih =>
    intro j
    unfold acceptedRecords
    by_cases ho : opens j r = true
    · rw [if_pos ho]
      obtain ⟨k, hk⟩ := ih (j + 1)
      exact ⟨k + 1, by rw [hk, List.range'_succ]⟩
    · rw [if_neg ho]; exact ⟨0, rfl⟩

theorem acceptedRecords_range (stream : List WireRec) :
    ∃ k, acceptedRecords 0 stream = List.range k := by
  obtain ⟨k, hk⟩ := acceptedRecords_range' stream 0
  exact ⟨k, by rw [hk, List.range_eq_range']⟩

-- ---------------------------------------------------------------------------------------------
-- the plaintext of an accepted prefix
-- ---------------------------------------------------------------------------------------------

theorem flatten_map_getD_range (pieces : List (List UInt8)) :
    ∀ k, ((List.range k).map fun i => pieces.getD i []).flatten = (pieces.take k).flatten := by
  intro k
  induction k with
  | zero => rfl
  | succ k ih =>
    rw [List.range_succ, List.map_append, List.flatten_append, ih, List.take_add_one,
      List.flatten_append]
    congr 1
    simp only [List.map_cons, List.map_nil, List.flatten_cons, List.flatten_nil, List.append_nil,
      List.getD_eq_getElem?_getD]
    cases pieces[k]? with
    | none => rfl
    | some x => simp only [List.flatten_cons, List.flatten_nil, List.append_nil,
        Option.getD_some, Option.toList_some]

theorem take_flatten_prefix (pieces : List (List UInt8)) (k : Nat) :
    (pieces.take k).flatten <+: pieces.flatten := by
  have h : pieces.flatten = (pieces.take k).flatten ++ (pieces.drop k).flatten := by
    rw [← List.flatten_append, List.take_append_drop]
  rw [h]
  exact List.prefix_append _ _

theorem receivedPlaintext_prefix (pieces : List (List UInt8)) (stream : List WireRec) :
    receivedPlaintext pieces stream <+: pieces.flatten := by
  obtain ⟨k, hk⟩ := acceptedRecords_range stream
  unfold receivedPlaintext
  rw [hk, flatten_map_getD_range]
  exact take_flatten_prefix pieces k

theorem honestStream_eq (n : Nat) : honestStream n = (List.range' 0 n).map .honest := by
  rw [honestStream, List.range_eq_range']

theorem acceptedRecords_honestStream (n : Nat) : acceptedRecords 0 (honestStream n) = List.range n := by
  rw [honestStream_eq, acceptedRecords_honest, List.range_eq_range']

theorem receivedPlaintext_honest (pieces : List (List UInt8)) :
    receivedPlaintext pieces (honestStream pieces.length) = pieces.flatten := by
  unfold receivedPlaintext
  rw [acceptedRecords_honestStream, flatten_map_getD_range, List.take_length]

-- ---------------------------------------------------------------------------------------------
-- single mutations of an honest stream
-- ---------------------------------------------------------------------------------------------

theorem honestStream_length (n : Nat) : (honestStream n).length = n := by
  simp only [honestStream, List.length_map, List.length_range]

theorem honestStream_take (n r : Nat) : (honestStream n).take r = honestStream (min r n) := by
  simp only [honestStream, ← List.map_take, List.take_range]

theorem honestStream_drop (n r : Nat) :
    (honestStream n).drop r = (List.range' r (n - r)).map .honest := by
  rw [honestStream_eq, ← List.map_drop, List.drop_range']
  simp only [Nat.mul_one, Nat.zero_add]

theorem honestStream_getElem? (n r : Nat) (h : r < n) : (honestStream n)[r]? = some (.honest r) := by
  simp only [honestStream, List.getElem?_map, List.getElem?_range h, Option.map_some]

theorem honestStream_getElem?_none (n r : Nat) (h : n ≤ r) : (honestStream n)[r]? = none := by
  rw [List.getElem?_eq_none_iff, honestStream_length]; exact h

theorem opens_honest_ne (j i : Nat) (h : i ≠ j) : opens j (.honest i) = false := by
  simp only [opens, beq_eq_false_iff_ne, ne_eq]; exact h

/-- honest records 0..m-1, then something that does not open in slot m: the receiver stops at m -/
theorem accepted_honestStream_then_bad (m : Nat) (x : WireRec) (rest : List WireRec)
    (hx : opens m x = false) :
    acceptedRecords 0 (honestStream m ++ x :: rest) = List.range m := by
  rw [honestStream_eq, acceptedRecords_honest_then_bad 0 m x rest (by rw [Nat.zero_add]; exact hx),
    List.range_eq_range']

/-- honest records 0..m-1, then a run of honest records that starts at the wrong number -/
theorem accepted_honestStream_then_run (m s q : Nat) (hs : s ≠ m) :
    acceptedRecords 0 (honestStream m ++ (List.range' s q).map .honest) = List.range m := by
  cases q with
  | zero =>
    simp only [List.range'_zero, List.map_nil, List.append_nil]
    exact acceptedRecords_honestStream m
  | succ q =>
    rw [List.range'_succ, List.map_cons]
    exact accepted_honestStream_then_bad m _ _ (opens_honest_ne m s hs)

theorem mutate_swap_none (s : List WireRec) (r : Nat) (h : s[r + 1]? = none) :
    mutate s (.swap r) = s := by
  simp only [mutate, h]
  cases s[r]? <;> rfl

theorem single_mutation_accepted (n : Nat) (m : Mutation) :
    ∃ k, acceptedRecords 0 (mutate (honestStream n) m) = List.range k ∧ k ≤ n
      ∧ (match m with
         | .flip r => r < n → k = r
         | .drop r => r < n → k = r
         | .dup r => r < n → k = r + 1
         | .swap r => r + 1 < n → k = r
         | .cut r => k = min r n
         | .inject r => r ≤ n → k = r) := by
  cases m with
  | flip r =>
    by_cases h : r < n
    · refine ⟨r, ?_, by omega, fun _ => rfl⟩
      simp only [mutate]
      rw [List.set_eq_take_append_cons_drop, honestStream_length, if_pos h, honestStream_take,
        Nat.min_eq_left (Nat.le_of_lt h)]
      exact accepted_honestStream_then_bad r _ _ rfl
    · refine ⟨n, ?_, Nat.le_refl n, fun h' => absurd h' h⟩
      simp only [mutate]
      rw [List.set_eq_of_length_le (by rw [honestStream_length]; omega)]
      exact acceptedRecords_honestStream n
  | drop r =>
    by_cases h : r < n
    · refine ⟨r, ?_, by omega, fun _ => rfl⟩
      simp only [mutate]
      rw [List.eraseIdx_eq_take_drop_succ, honestStream_take, Nat.min_eq_left (Nat.le_of_lt h),
        honestStream_drop]
      exact accepted_honestStream_then_run r (r + 1) _ (by omega)
    · refine ⟨n, ?_, Nat.le_refl n, fun h' => absurd h' h⟩
      simp only [mutate]
      rw [List.eraseIdx_of_length_le (by rw [honestStream_length]; omega)]
      exact acceptedRecords_honestStream n
  | dup r =>
    by_cases h : r < n
    · refine ⟨r + 1, ?_, by omega, fun _ => rfl⟩
      simp only [mutate, honestStream_getElem? n r h]
      rw [honestStream_take, Nat.min_eq_left (by omega : r + 1 ≤ n)]
      exact accepted_honestStream_then_bad (r + 1) _ _ (opens_honest_ne _ _ (by omega))
    · refine ⟨n, ?_, Nat.le_refl n, fun h' => absurd h' h⟩
      simp only [mutate, honestStream_getElem?_none n r (by omega)]
      exact acceptedRecords_honestStream n
  | swap r =>
    by_cases h : r + 1 < n
    · refine ⟨r, ?_, by omega, fun _ => rfl⟩
      simp only [mutate, honestStream_getElem? n r (by omega), honestStream_getElem? n (r + 1) h]
      rw [honestStream_take, Nat.min_eq_left (by omega : r ≤ n)]
      exact accepted_honestStream_then_bad r _ _ (opens_honest_ne _ _ (by omega))
    · refine ⟨n, ?_, Nat.le_refl n, fun h' => absurd h' h⟩
      rw [mutate_swap_none _ r (honestStream_getElem?_none n (r + 1) (by omega))]
      exact acceptedRecords_honestStream n
  | cut r =>
    refine ⟨min r n, ?_, Nat.min_le_right r n, rfl⟩
    simp only [mutate]
    rw [honestStream_take]
    exact acceptedRecords_honestStream _
  | inject r =>
    refine ⟨min r n, ?_, Nat.min_le_right r n, fun h => Nat.min_eq_left h⟩
    simp only [mutate]
    rw [honestStream_take]
    exact accepted_honestStream_then_bad _ _ _ rfl

/-- decoding any prefix of the encoding of a frame sequence yields a prefix of the sequence -/
theorem decodeAll_prefix_of_encoded' (max : Int) (fs : List Frame) (bytes : List UInt8)
    (hok : ∀ f ∈ fs, C03.FrameOk f) (hmax : ∀ f ∈ fs, C03.Admits max f)
    (hp : bytes <+: (fs.map encodeCodec).flatten) :
    (decodeAll max bytes).1 <+: fs := by
  obtain ⟨b, hb⟩ := hp
  have h := C03.decode_prefix_monotone max bytes b
  rw [hb, C03.decodeAll_encode max fs hok hmax] at h
  exact h

end Rzmq
