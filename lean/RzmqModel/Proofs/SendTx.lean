import RzmqModel.Model.SendTx
/-! helper lemmas for M15 `SendTx` (property theorems are in `Props/C09.lean`) -/
namespace Rzmq

def goodTx : TxCfg := { buffersUntilLast := true, closesBeforeAwait := true }

/-- what holds in every reachable state of a socket that buffers until the last frame and closes the transaction before
it awaits -/
structure SendTx.Inv (s : SendTx) : Prop where
  half_nil : s.half = []
  buf_cur : s.buf = s.cur
  busy_cur : s.busy = true → s.cur ≠ []
  stuck_zero : s.stuck = 0
  fly : match s.inflight with
        | some m => s.cur = [] ∧ ∃ o, s.offered = o ++ [m] ∧ s.pipe.Sublist o
        | none => s.pipe.Sublist s.offered

theorem SendTx.inv_init : ({} : SendTx).Inv :=
  ⟨rfl, rfl, by simp, rfl, by simp⟩

theorem SendTx.inv_step (s : SendTx) (e : TxEv) (h : s.Inv) : (s.step goodTx e).Inv := by
  obtain ⟨h1, h2, h3, h4, h5⟩ := h
  cases e with
  | frame f =>
    cases hfl : s.inflight with
    | some m => simp only [SendTx.step, hfl, Option.isSome_some, if_true]; exact ⟨h1, h2, h3, h4, h5⟩
    | none =>
      simp only [hfl] at h5
      simp only [SendTx.step, hfl, goodTx, Option.isSome_none, if_true]
      refine ⟨h1, by simp [h2], by simp, h4, ?_⟩
      simpa [hfl] using h5
  | last f =>
    cases hfl : s.inflight with
    | some m => simp only [SendTx.step, hfl, Option.isSome_some, if_true]; exact ⟨h1, h2, h3, h4, h5⟩
    | none =>
      simp only [hfl] at h5
      simp only [SendTx.step, hfl, goodTx, Option.isSome_none, if_true]
      refine ⟨h1, rfl, by simp, h4, ?_⟩
      exact ⟨rfl, s.offered, by simp [h2], h5⟩
  | complete =>
    cases hfl : s.inflight with
    | none => simp only [SendTx.step, hfl]; exact ⟨h1, h2, h3, h4, by simpa [hfl] using h5⟩
    | some m =>
      simp only [hfl] at h5
      obtain ⟨hc, o, ho, hs⟩ := h5
      simp only [SendTx.step, hfl, SendTx.handOver]
      refine ⟨rfl, by simp [hc], by simp, h4, ?_⟩
      simp only [h1, List.nil_append, ho]
      exact List.Sublist.append hs (List.Sublist.refl _)
  | cancel =>
    simp only [SendTx.step]
    refine ⟨h1, h2, h3, h4, ?_⟩
    simp only
    cases hfl : s.inflight with
    | none => simpa [hfl] using h5
    | some m =>
      simp only [hfl] at h5
      obtain ⟨_, o, ho, hs⟩ := h5
      rw [ho]
      exact hs.trans (List.sublist_append_left o [m])
  | whole m =>
    cases hfl : s.inflight with
    | some x => simp only [SendTx.step, hfl, Option.isSome_some, if_true]; exact ⟨h1, h2, h3, h4, h5⟩
    | none =>
      simp only [hfl] at h5
      simp only [SendTx.step, hfl, Option.isSome_none]
      cases hb : s.busy with
      | true =>
        have hne := h3 hb
        simp only [Bool.false_eq_true, if_false, if_true, hne]
        exact ⟨h1, h2, h3, h4, by simpa [hfl] using h5⟩
      | false =>
        simp only [Bool.false_eq_true, if_false, SendTx.handOver]
        refine ⟨rfl, h2, by simp [hb], h4, ?_⟩
        simp only [hfl, h1, List.nil_append]
        exact List.Sublist.append h5 (List.Sublist.refl _)

theorem SendTx.inv_run (evs : List TxEv) (s : SendTx) (h : s.Inv) : (s.run goodTx evs).Inv := by
  induction evs generalizing s with
  | nil => exact h
  | cons e r ih => exact ih _ (SendTx.inv_step s e h)

/-! ## completeness: without a dropped future nothing the application gave is lost -/

/-- delivered-so-far when no future was dropped: everything offered is in the pipe, except the message whose hand-over is
being awaited right now -/
def SendTx.Full (s : SendTx) : Prop :=
  match s.inflight with
  | some m => s.offered = s.pipe ++ [m]
  | none => s.pipe = s.offered

theorem SendTx.full_step (s : SendTx) (e : TxEv) (he : e ≠ .cancel) (h : s.Inv) (hf : s.Full) :
    (s.step goodTx e).Full := by
  obtain ⟨h1, h2, h3, _, _⟩ := h
  unfold SendTx.Full at hf ⊢
  cases e with
  | cancel => exact absurd rfl he
  | frame f =>
    cases hfl : s.inflight with
    | some m => simp only [SendTx.step, hfl, Option.isSome_some, if_true]; simpa [hfl] using hf
    | none =>
      simp only [hfl] at hf
      simp only [SendTx.step, hfl, goodTx, Option.isSome_none, if_true]
      simpa [hfl] using hf
  | last f =>
    cases hfl : s.inflight with
    | some m => simp only [SendTx.step, hfl, Option.isSome_some, if_true]; simpa [hfl] using hf
    | none =>
      simp only [hfl] at hf
      simp only [SendTx.step, hfl, goodTx, Option.isSome_none, if_true]
      simp [h2, hf]
  | complete =>
    cases hfl : s.inflight with
    | none => simp only [SendTx.step, hfl]; simpa [hfl] using hf
    | some m =>
      simp only [hfl] at hf
      simp only [SendTx.step, hfl, SendTx.handOver]
      simp [h1, hf]
  | whole m =>
    cases hfl : s.inflight with
    | some x => simp only [SendTx.step, hfl, Option.isSome_some, if_true]; simpa [hfl] using hf
    | none =>
      simp only [hfl] at hf
      simp only [SendTx.step, hfl, Option.isSome_none]
      cases hb : s.busy with
      | true =>
        have hne := h3 hb
        simp only [Bool.false_eq_true, if_false, if_true, hne]
        simpa [hfl] using hf
      | false =>
        simp only [Bool.false_eq_true, if_false, SendTx.handOver]
        simp [hfl, h1, hf]

theorem SendTx.full_run (evs : List TxEv) (hev : ∀ e ∈ evs, e ≠ .cancel) (s : SendTx) (h : s.Inv) (hf : s.Full) :
    (s.run goodTx evs).Full := by
  induction evs generalizing s with
  | nil => exact hf
  | cons e r ih =>
    have he := hev e (by simp)
    exact ih (fun x hx => hev x (by simp [hx])) _ (SendTx.inv_step s e h) (SendTx.full_step s e he h hf)

/-! ## a dropped future costs at most the one message it was handing over -/

def SendTx.pendingCount (s : SendTx) : Nat := if s.inflight.isSome then 1 else 0

def cancelCount (evs : List TxEv) : Nat := evs.countP (· = .cancel)

theorem SendTx.loss_step (s : SendTx) (e : TxEv) (n : Nat) (h : s.Inv)
    (hb : s.offered.length ≤ s.pipe.length + n + s.pendingCount) :
    (s.step goodTx e).offered.length
      ≤ (s.step goodTx e).pipe.length + (n + if e = .cancel then 1 else 0) + (s.step goodTx e).pendingCount := by
  obtain ⟨_, _, h3, _, _⟩ := h
  unfold SendTx.pendingCount at hb ⊢
  cases e with
  | cancel =>
    simp only [SendTx.step, if_true, Option.isSome_none, Bool.false_eq_true, if_false]
    split at hb <;> omega
  | frame f =>
    cases hfl : s.inflight with
    | some m => simp only [SendTx.step, hfl, Option.isSome_some, if_true] at hb ⊢; simpa [hfl] using hb
    | none =>
      simp only [hfl, Option.isSome_none, Bool.false_eq_true, if_false] at hb
      simp only [SendTx.step, hfl, goodTx, Option.isSome_none, if_true, Bool.false_eq_true, if_false, reduceCtorEq]
      simpa [hfl] using hb
  | last f =>
    cases hfl : s.inflight with
    | some m => simp only [SendTx.step, hfl, Option.isSome_some, if_true] at hb ⊢; simpa [hfl] using hb
    | none =>
      simp only [hfl, Option.isSome_none, Bool.false_eq_true, if_false] at hb
      simp only [SendTx.step, hfl, goodTx, Option.isSome_none, if_true, Bool.false_eq_true, if_false, reduceCtorEq,
        Option.isSome_some, List.length_append, List.length_singleton]
      omega
  | complete =>
    cases hfl : s.inflight with
    | none => simp only [SendTx.step, hfl] at hb ⊢; simpa [hfl] using hb
    | some m =>
      simp only [hfl, Option.isSome_some, if_true] at hb
      simp only [SendTx.step, hfl, SendTx.handOver, Option.isSome_none, Bool.false_eq_true, if_false, reduceCtorEq,
        List.length_append, List.length_singleton]
      omega
  | whole m =>
    cases hfl : s.inflight with
    | some x => simp only [SendTx.step, hfl, Option.isSome_some, if_true] at hb ⊢; simpa [hfl] using hb
    | none =>
      simp only [hfl, Option.isSome_none, Bool.false_eq_true, if_false] at hb
      simp only [SendTx.step, hfl, Option.isSome_none]
      cases hbz : s.busy with
      | true =>
        have hne := h3 hbz
        simp only [Bool.false_eq_true, if_false, if_true, hne, reduceCtorEq]
        simpa [hfl] using hb
      | false =>
        simp only [Bool.false_eq_true, if_false, SendTx.handOver, hfl, Option.isSome_none, reduceCtorEq,
          List.length_append, List.length_singleton]
        omega

theorem SendTx.loss_run (evs : List TxEv) (s : SendTx) (n : Nat) (h : s.Inv)
    (hb : s.offered.length ≤ s.pipe.length + n + s.pendingCount) :
    (s.run goodTx evs).offered.length
      ≤ (s.run goodTx evs).pipe.length + (n + cancelCount evs) + (s.run goodTx evs).pendingCount := by
  induction evs generalizing s n with
  | nil => simpa [SendTx.run, cancelCount] using hb
  | cons e r ih =>
    have := ih (s.step goodTx e) (n + if e = .cancel then 1 else 0) (SendTx.inv_step s e h) (SendTx.loss_step s e n h hb)
    simp only [SendTx.run, List.foldl_cons] at this ⊢
    simp only [cancelCount, List.countP_cons, decide_eq_true_eq] at this ⊢
    omega

end Rzmq
