import RzmqModel.Model.SendTx
/-! helper lemmas for M15 `SendTx` (property theorems are in `Props/C09.lean`) -/
namespace Rzmq

def goodTx : TxCfg := { buffersUntilLast := true, closesBeforeAwait := true }

/-- what holds in every reachable state of a socket that buffers until the last frame and closes the transaction before
it awaits -/
structure SendTx.Inv (s : SendTx) : Prop where
  half_nil : s.half = []
  buf_cur : s.buf = s.cur
  busy_cur : s.busy = true → s.cur ≠ []
  stuck_zero : s.stuck = 0
  fly : match s.inflight with
        | some m => s.cur = [] ∧ ∃ o, s.offered = o ++ [m] ∧ s.pipe.Sublist o
        | none => s.pipe.Sublist s.offered

theorem SendTx.inv_init : ({} : SendTx).Inv :=
  ⟨rfl, rfl, by simp, rfl, by simp⟩

theorem SendTx.inv_step (s : SendTx) (e : TxEv) (h : s.Inv) : (s.step goodTx e).Inv := by
  obtain ⟨h1, h2, h3, h4, h5⟩ := h
  cases e with
  | frame f =>
    cases hfl : s.inflight with
    | some m => simp only [SendTx.step, hfl, Option.isSome_some, if_true]; exact ⟨h1, h2, h3, h4, h5⟩
    | none =>
      simp only [hfl] at h5
      simp only [SendTx.step, hfl, goodTx, Option.isSome_none, if_true]
      refine ⟨h1, by simp [h2], by simp, h4, ?_⟩
      simpa [hfl] using h5
  | last f =>
    cases hfl : s.inflight with
    | some m => simp only [SendTx.step, hfl, Option.isSome_some, if_true]; exact ⟨h1, h2, h3, h4, h5⟩
    | none =>
      simp only [hfl] at h5
      simp only [SendTx.step, hfl, goodTx, Option.isSome_none, if_true]
      refine ⟨h1, rfl, by simp, h4, ?_⟩
      exact ⟨rfl, s.offered, by simp [h2], h5⟩
  | complete =>
    cases hfl : s.inflight with
    | none => simp only [SendTx.step, hfl]; exact ⟨h1, h2, h3, h4, by simpa [hfl] using h5⟩
    | some m =>
      simp only [hfl] at h5
      obtain ⟨hc, o, ho, hs⟩ := h5
      simp only [SendTx.step, hfl, SendTx.handOver]
      refine ⟨rfl, by simp [hc], by simp, h4, ?_⟩
      simp only [h1, List.nil_append, ho]
      exact List.Sublist.append hs (List.Sublist.refl _)
  | cancel =>
    simp only [SendTx.step]
    refine ⟨h1, h2, h3, h4, ?_⟩
    simp only
    cases hfl : s.inflight with
    | none => simpa [hfl] using h5
    | some m =>
      simp only [hfl] at h5
      obtain ⟨_, o, ho, hs⟩ := h5
      rw [ho]
      exact hs.trans (List.sublist_append_left o [m])
  | whole m =>
    cases hfl : s.inflight with
    | some x => simp only [SendTx.step, hfl, Option.isSome_some, if_true]; exact ⟨h1, h2, h3, h4, h5⟩
    | none =>
      simp only [hfl] at h5
      simp only [SendTx.step, hfl, Option.isSome_none]
      cases hb : s.busy with
      | true =>
        have hne := h3 hb
        simp only [Bool.false_eq_true, if_false, if_true, hne]
        exact ⟨h1, h2, h3, h4, by simpa [hfl] using h5⟩
      | false =>
        simp only [Bool.false_eq_true, if_false, SendTx.handOver]
        refine ⟨rfl, h2, by simp [hb], h4, ?_⟩
        simp only [hfl, h1, List.nil_append]
        exact List.Sublist.append h5 (List.Sublist.refl _)

theorem SendTx.inv_run (evs : List TxEv) (s : SendTx) (h : s.Inv) : (s.run goodTx evs).Inv := by
  induction evs generalizing s with
  | nil => exact h
  | cons e r ih => exact ih _ (SendTx.inv_step s e h)

end Rzmq
