import RzmqModel.Model.Engine
import RzmqModel.Proofs.Wire
/-! Helper lemmas for the engine model (C04, C07). -/
namespace Rzmq

-- ---------------------------------------------------------------------------------------------
-- wire level
-- ---------------------------------------------------------------------------------------------

theorem needMore_bounded' (m : Nat) (src : List UInt8) (h : decodeBuffer (m : Int) src = .needMore) :
    src.length < 9 + m := by
  cases src with
  | nil => simp only [List.length_nil]; omega
  | cons fl tl =>
    simp only [decodeBuffer] at h
    generalize hhdr : (if isLong fl then Gen.bufferLongHdr else Gen.bufferShortHdr) = hdr at h
    have hh : hdr ≤ 9 := by
      rw [← hhdr]; simp only [Gen.bufferLongHdr, Gen.bufferShortHdr]; split <;> omega
    simp only [List.length_cons]
    by_cases h1 : tl.length + 1 < hdr
    · omega
    · rw [if_neg h1] at h
      by_cases h2 : exceeds (m : Int) (rawSize fl tl) = true
      · rw [if_pos h2] at h; cases h
      · rw [if_neg h2] at h
        by_cases h3 : tl.length + 1 - hdr < rawSize fl tl
        · simp only [exceeds, Int.toNat_natCast, Int.natCast_nonneg, decide_true, Bool.true_and,
            decide_eq_true_eq] at h2
          omega
        · rw [if_neg h3] at h; cases h

theorem exceeds_succ (m : Nat) : exceeds (m : Int) (m + 1) = true := by
  simp [exceeds]

theorem decodeSliceLike_ne_panic (a b c : Nat) (max : Int) (src : List UInt8) :
    decodeSliceLike a b c max src ≠ .panic := by
  unfold decodeSliceLike
  split
  · simp
  · split
    · simp
    · simp only
      repeat' split
      all_goals simp


-- ---------------------------------------------------------------------------------------------
-- the handshake frame limit
-- ---------------------------------------------------------------------------------------------

theorem hsLimit_eq (cfg : Cfg) : hsLimit cfg =
    if cfg.maxMsgSize < 0 then -1 else if cfg.maxMsgSize < 8192 then 8192 else cfg.maxMsgSize := by
  unfold hsLimit
  have h0 : ¬ (Gen.HANDSHAKE_FRAME_LIMIT == 0) = true := by unfold Gen.HANDSHAKE_FRAME_LIMIT; decide
  rw [if_neg h0]
  simp only [Gen.HANDSHAKE_FRAME_LIMIT]
  rfl

theorem hsLimit_neg_iff (cfg : Cfg) : hsLimit cfg < 0 ↔ cfg.maxMsgSize < 0 := by
  rw [hsLimit_eq]
  by_cases h1 : cfg.maxMsgSize < 0
  · rw [if_pos h1]; omega
  · rw [if_neg h1]; by_cases h2 : cfg.maxMsgSize < 8192
    · rw [if_pos h2]; omega
    · rw [if_neg h2]

theorem hsLimit_of_nat {cfg : Cfg} {m : Nat} (hm : cfg.maxMsgSize = (m : Int)) :
    hsLimit cfg = ((max m Gen.HANDSHAKE_FRAME_LIMIT : Nat) : Int) := by
  rw [hsLimit_eq, hm]
  simp only [Gen.HANDSHAKE_FRAME_LIMIT]
  rw [if_neg (by omega)]
  by_cases h2 : (m : Int) < 8192
  · rw [if_pos h2]; omega
  · rw [if_neg h2]; omega

theorem hsLimit_ge (cfg : Cfg) (h : ¬ cfg.maxMsgSize < 0) : cfg.maxMsgSize ≤ hsLimit cfg := by
  rw [hsLimit_eq, if_neg h]
  by_cases h2 : cfg.maxMsgSize < 8192
  · rw [if_pos h2]; omega
  · rw [if_neg h2]; omega

theorem exceeds_hsLimit {cfg : Cfg} {raw : Nat} (h : exceeds (hsLimit cfg) raw = true) :
    exceeds cfg.maxMsgSize raw = true := by
  simp only [exceeds, Bool.and_eq_true, decide_eq_true_eq] at h ⊢
  have h1 := hsLimit_neg_iff cfg
  have h2 := hsLimit_ge cfg
  omega
/-- a frame admitted under MAXMSGSIZE is admitted under the handshake limit -/
theorem admits_hsLimit {cfg : Cfg} {n : Nat} (h : cfg.maxMsgSize < 0 ∨ n ≤ cfg.maxMsgSize.toNat) :
    hsLimit cfg < 0 ∨ n ≤ (hsLimit cfg).toNat := by
  have h1 := hsLimit_neg_iff cfg
  have h2 := hsLimit_ge cfg
  omega

-- ---------------------------------------------------------------------------------------------
-- READY metadata
-- ---------------------------------------------------------------------------------------------

theorem UInt8_ofNat_eq_of_mod (n : Nat) (a : UInt8) (h : n % 256 = a.toNat) : UInt8.ofNat n = a := by
  apply UInt8.toNat_inj.mp
  simp only [UInt8.toNat_ofNat']
  exact h

theorem be32_ofBe4 (a b c d : UInt8) : be32 (ofBe [a, b, c, d]) = [a, b, c, d] := by
  have ha := a.toNat_lt; have hb := b.toNat_lt; have hc := c.toNat_lt; have hd := d.toNat_lt
  simp only [ofBe, be32, List.foldl_cons, List.foldl_nil]
  rw [UInt8_ofNat_eq_of_mod _ a (by omega), UInt8_ofNat_eq_of_mod _ b (by omega),
    UInt8_ofNat_eq_of_mod _ c (by omega), UInt8_ofNat_eq_of_mod _ d (by omega)]

theorem be32_ofBe_take4 (l : List UInt8) (h : 4 ≤ l.length) : be32 (ofBe (l.take 4)) = l.take 4 := by
  match l, h with
  | a :: b :: c :: d :: r, _ => simp only [List.take_succ_cons, List.take_zero, be32_ofBe4]

theorem parseProps_sound' (fuel : Nat) : ∀ (body : Bytes) (ps : Props), parseProps fuel body = some ps →
    encodeProps ps = body ∧ ∀ p ∈ ps, validUtf8 p.1 = true ∧ p.1.length ≤ 255 := by
  induction fuel with
  | zero =>
    intro body ps h
    cases body with
    | nil => simp only [parseProps, Option.some.injEq] at h; subst h; simp [encodeProps]
    | cons x xs => simp [parseProps] at h
  | succ fuel ih =>
    intro body ps h
    cases body with
    | nil => simp only [parseProps, Option.some.injEq] at h; subst h; simp [encodeProps]
    | cons nl rest =>
      simp only [parseProps] at h
      split at h; · cases h
      rename_i h1
      split at h; · cases h
      rename_i h2
      split at h; · cases h
      rename_i h3
      split at h; · cases h
      rename_i h4
      split at h; · cases h
      rename_i ps' hrec
      simp only [Option.some.injEq] at h
      subst h
      obtain ⟨ihe, ihv⟩ := ih _ _ hrec
      have hnl := nl.toNat_lt
      have hlen : (List.take nl.toNat rest).length = nl.toNat := by
        simp only [List.length_take]; omega
      constructor
      · simp only [encodeProps, hlen, ihe]
        rw [if_neg (by omega)]
        have hvl : (List.take (ofBe (List.take 4 (List.drop nl.toNat rest)))
            (List.drop 4 (List.drop nl.toNat rest))).length
            = ofBe (List.take 4 (List.drop nl.toNat rest)) := by
          simp only [List.length_take]; omega
        rw [hvl, be32_ofBe_take4 _ (by omega), UInt8.ofNat_toNat]
        simp only [List.cons_append, List.append_assoc, List.take_append_drop]
      · intro p hp
        simp only [List.mem_cons] at hp
        rcases hp with rfl | hp
        · simp only [hlen]
          refine ⟨?_, by omega⟩
          simpa using h2
        · exact ihv p hp

-- ---------------------------------------------------------------------------------------------
-- `step`: termination measure
-- ---------------------------------------------------------------------------------------------

def mechBudget : Mech → Nat
  | .null => 0
  | .plain .clientSendHello => 1
  | .plain .serverExpectHello => 1
  | .plain .serverSendWelcome => 1
  | .plain _ => 0
  | .abs _ _ n => 8 - n

def stepMeasure (s : Eng) : Nat :=
  match s.phase with
  | .closed => 0
  | .greeting => s.acc.length + (if s.revisionSent then 0 else 1) + (if s.version.isNone then 1 else 0) + 11
  | .security => s.acc.length + mechBudget s.mech + 2
  | .ready => s.acc.length + 1
  | .v2Identity => s.acc.length + (if s.v2IdentitySent then 0 else 1) + 1
  | .data => s.acc.length + 1

theorem mechBudget_le (m : Mech) : mechBudget m ≤ 8 := by
  unfold mechBudget; split <;> omega

theorem produceToken_budget {spec : AbsSpec} (hw : WellBehaved spec) {cfg : Cfg} {m m' : Mech} {t : Bytes}
    (h : produceToken spec cfg m = (some t, m')) : mechBudget m' < mechBudget m := by
  unfold produceToken at h
  split at h
  · simp only [Prod.mk.injEq] at h; obtain ⟨-, rfl⟩ := h; simp [mechBudget]
  · simp only [Prod.mk.injEq] at h; obtain ⟨-, rfl⟩ := h; simp [mechBudget]
  · rename_i k hh n
    split at h
    · rename_i tk hp
      simp only [Prod.mk.injEq] at h; obtain ⟨-, rfl⟩ := h
      have : n < 8 := by
        apply Nat.lt_of_not_le
        intro hn
        rw [hw k cfg.isServer hh n hn] at hp
        cases hp
      simp only [mechBudget]; omega
    · simp at h
  · simp at h

theorem processToken_budget {spec : AbsSpec} {cfg : Cfg} {m m' : Mech} {tok : Bytes}
    (h : processToken spec cfg m tok = .ok m') : mechBudget m' ≤ mechBudget m := by
  unfold processToken at h
  repeat' (first | split at h | simp only at h)
  all_goals first
    | (cases h; done)
    | (injection h with h; subst h; simp [mechBudget]; done)

theorem step_stepMeasure {spec : AbsSpec} (hw : WellBehaved spec) {cfg : Cfg} {t : Nat} {s s' : Eng} {o : Out}
    (h : step spec cfg t s = some (s', o)) : stepMeasure s' < stepMeasure s := by
  obtain ⟨phase, acc, version, revisionSent, v2IdentitySent, v2PeerType, mech, pendingSealed, sealed,
    lastActivity, lastPing, waitingForPong, partialBatch, panicked, gNegotiated, gTokens⟩ := s
  cases phase <;> simp only [step] at h <;> repeat' (split at h)
  all_goals first
    | (cases h; done)
    | skip
  all_goals
    simp only [Option.some.injEq, Prod.mk.injEq, fail, enterReady] at h
    obtain ⟨rfl, rfl⟩ := h
  all_goals
    simp only [stepMeasure, List.length_drop, Gen.GREETING_LENGTH, Gen.V2_GREETING_LENGTH, Gen.SIGNATURE_LENGTH,
      Gen.REVISION_OFFSET] at *
  all_goals
    try have hr := decodeBuffer_rest_lt (by assumption)
    try have hp := produceToken_budget hw (by assumption)
    try have hq := processToken_budget (by assumption)
    try have hb := mechBudget_le (by assumption)
  all_goals first
    | omega
    | (cases revisionSent <;> cases version <;> cases v2IdentitySent <;> simp at * <;> omega)

-- ---------------------------------------------------------------------------------------------
-- `step`: monotone under appending bytes to the accumulator
-- ---------------------------------------------------------------------------------------------

section ListHelpers
variable {α : Type} {a b : List α} {n : Nat} {d : α}

theorem app_len_lt (h : ¬ a.length < n) : ((a ++ b).length < n) = False := by
  simp only [List.length_append, eq_iff_iff, iff_false]; omega

theorem headD_drop_app (h : n < a.length) : ((a ++ b).drop n).headD d = (a.drop n).headD d := by
  rw [List.drop_append_of_le_length (by omega)]
  cases hd : a.drop n with
  | nil =>
    have := congrArg List.length hd
    simp only [List.length_drop, List.length_nil] at this; omega
  | cons x xs => rfl

theorem headD_app (h : 0 < a.length) : (a ++ b).headD d = a.headD d := by
  cases a with
  | nil => simp at h
  | cons x xs => rfl

theorem headD_drop_app' (h : n < a.length) : (a.drop n ++ b).headD d = (a.drop n).headD d := by
  rw [← List.drop_append_of_le_length (by omega)]; exact headD_drop_app h

theorem take_app (h : n ≤ a.length) : (a ++ b).take n = a.take n :=
  List.take_append_of_le_length h

theorem drop_app (h : n ≤ a.length) : (a ++ b).drop n = a.drop n ++ b :=
  List.drop_append_of_le_length h
end ListHelpers

set_option maxHeartbeats 400000 in
theorem step_append {spec : AbsSpec} {cfg : Cfg} {t : Nat} {s s' : Eng} {o : Out}
    (h : step spec cfg t s = some (s', o)) (b : Bytes) :
    step spec cfg t { s with acc := s.acc ++ b } = some ({ s' with acc := s'.acc ++ b }, o) := by
  obtain ⟨phase, acc, version, revisionSent, v2IdentitySent, v2PeerType, mech, pendingSealed, sealed,
    lastActivity, lastPing, waitingForPong, partialBatch, panicked, gNegotiated, gTokens⟩ := s
  cases phase <;> simp only [step] at h ⊢ <;> repeat' (split at h)
  all_goals first
    | (cases h; done)
    | skip
  all_goals
    simp only [Option.some.injEq, Prod.mk.injEq, fail, enterReady] at h
    obtain ⟨rfl, rfl⟩ := h
  all_goals
    simp only [Gen.GREETING_LENGTH, Gen.V2_GREETING_LENGTH, Gen.SIGNATURE_LENGTH,
      Gen.REVISION_OFFSET, Gen.V2_SOCKET_TYPE_OFFSET] at *
  all_goals
    try have e1 := decodeBuffer_append_frame b (by assumption)
    try have e2 := decodeBuffer_append_error b (by assumption)
  all_goals
    try simp only [*, ↓reduceIte, Bool.false_eq_true]
  all_goals
    try simp (disch := omega) only [app_len_lt, headD_drop_app', headD_app, take_app, drop_app]
  all_goals
    try simp only [*, ↓reduceIte, Bool.false_eq_true, fail, enterReady]

-- ---------------------------------------------------------------------------------------------
-- `step`: independent of the clock
-- ---------------------------------------------------------------------------------------------

def eraseP (p : Eng × Out) : Eng × Out := (p.1.eraseClock, p.2)

theorem step_clock_aux {spec : AbsSpec} {cfg : Cfg} (t t' a : Nat) (s : Eng) (r : Option (Eng × Out))
    (h : step spec cfg t s = r) :
    (step spec cfg t' { s with lastActivity := a }).map eraseP = r.map eraseP := by
  obtain ⟨phase, acc, version, revisionSent, v2IdentitySent, v2PeerType, mech, pendingSealed, sealed,
    lastActivity, lastPing, waitingForPong, partialBatch, panicked, gNegotiated, gTokens⟩ := s
  cases phase <;> simp only [step] at h ⊢ <;> repeat' (split at h)
  all_goals subst h
  all_goals
    try simp only [*, ↓reduceIte, Bool.false_eq_true]
  all_goals first
    | rfl
    | skip

-- ---------------------------------------------------------------------------------------------
-- `step`: invariants, errors, what quiescence means for the accumulator
-- ---------------------------------------------------------------------------------------------

def PanicInv (s : Eng) : Prop := s.panicked = false ∧ s.partialBatch.length ≤ Gen.MAX_FRAMES_PER_MESSAGE

theorem step_inv {spec : AbsSpec} {cfg : Cfg} (hlim : Gen.MAX_FRAMES_PER_MESSAGE ≤ cfg.frameLimit)
    {t : Nat} {s s' : Eng} {o : Out}
    (h : step spec cfg t s = some (s', o)) (hi : PanicInv s) : PanicInv s' := by
  obtain ⟨phase, acc, version, revisionSent, v2IdentitySent, v2PeerType, mech, pendingSealed, sealed,
    lastActivity, lastPing, waitingForPong, partialBatch, panicked, gNegotiated, gTokens⟩ := s
  obtain ⟨hi1, hi2⟩ := hi
  simp only at hi1 hi2
  subst hi1
  cases phase <;> simp only [step] at h <;> repeat' (split at h)
  all_goals first
    | (cases h; done)
    | skip
  all_goals
    simp only [Option.some.injEq, Prod.mk.injEq, fail, enterReady] at h
    obtain ⟨rfl, rfl⟩ := h
  all_goals first
    | exact ⟨rfl, hi2⟩
    | exact ⟨rfl, Nat.zero_le _⟩
    | (simp [PanicInv, Gen.dataFrameLimitChecked] at *; omega)

theorem step_peerError {spec : AbsSpec} {cfg : Cfg} {t : Nat} {s s' : Eng} {o : Out} {e : ErrClass}
    (h : step spec cfg t s = some (s', o)) (he : AppAct.peerError e ∈ o.app) : s'.phase = .closed := by
  obtain ⟨phase, acc, version, revisionSent, v2IdentitySent, v2PeerType, mech, pendingSealed, sealed,
    lastActivity, lastPing, waitingForPong, partialBatch, panicked, gNegotiated, gTokens⟩ := s
  cases phase <;> simp only [step] at h <;> repeat' (split at h)
  all_goals first
    | (cases h; done)
    | skip
  all_goals
    simp only [Option.some.injEq, Prod.mk.injEq, fail, enterReady] at h
    obtain ⟨rfl, rfl⟩ := h
  all_goals first
    | rfl
    | (simp at he; done)

theorem step_none_bound {spec : AbsSpec} {cfg : Cfg} {t : Nat} {s : Eng} {m : Nat}
    (hm : cfg.maxMsgSize = (m : Int))
    (h : step spec cfg t s = none) (hp : s.panicked = false) (hc : s.phase ≠ .closed)
    (hs : s.sealed = false) :
    s.acc.length < max 64 (9 + max m Gen.HANDSHAKE_FRAME_LIMIT) ∧ (s.phase = .data → s.acc.length < 9 + m) := by
  obtain ⟨phase, acc, version, revisionSent, v2IdentitySent, v2PeerType, mech, pendingSealed, sealed,
    lastActivity, lastPing, waitingForPong, partialBatch, panicked, gNegotiated, gTokens⟩ := s
  simp only at hp hs
  subst hp hs
  cases phase <;> simp only [step, hm, hsLimit_of_nat hm] at h <;> repeat' (split at h)
  all_goals first
    | (cases h; done)
    | skip
  all_goals
    try have hb := needMore_bounded' _ _ (by assumption)
  all_goals
    simp only [Gen.GREETING_LENGTH, Gen.V2_GREETING_LENGTH, Gen.SIGNATURE_LENGTH,
      Gen.REVISION_OFFSET] at *
  all_goals first
    | (refine ⟨?_, fun hph => ?_⟩ <;> first | omega | (cases hph; done))
    | contradiction
    | exact absurd (by assumption) (decodeBuffer_ne_panic _ _)

-- ---------------------------------------------------------------------------------------------
-- `run`: fuel, quiescence, appending bytes
-- ---------------------------------------------------------------------------------------------

-- Out monoid
theorem Out.append_def (a b : Out) : a ++ b = { net := a.net ++ b.net, app := a.app ++ b.app } := rfl
@[simp] theorem Out.empty_append (o : Out) : ({} : Out) ++ o = o := by
  cases o; simp [Out.append_def]
@[simp] theorem Out.append_empty (o : Out) : o ++ ({} : Out) = o := by
  cases o; simp [Out.append_def]
theorem Out.append_assoc (a b c : Out) : a ++ b ++ c = a ++ (b ++ c) := by
  simp [Out.append_def]
@[simp] theorem Out.app_append (a b : Out) : (a ++ b).app = a.app ++ b.app := rfl

variable {spec : AbsSpec} {cfg : Cfg}

theorem run_none {t : Nat} {s : Eng} (h : step spec cfg t s = none) (f : Nat) :
    run spec cfg t f s = (s, {}) := by
  cases f with
  | zero => rfl
  | succ f => simp only [run, h]

theorem run_some {t : Nat} {s s' : Eng} {o : Out} (h : step spec cfg t s = some (s', o)) (f : Nat) :
    run spec cfg t (f + 1) s = ((run spec cfg t f s').1, o ++ (run spec cfg t f s').2) := by
  simp only [run, h]

theorem run_fuel (hw : WellBehaved spec) (t : Nat) (f1 : Nat) : ∀ (f2 : Nat) (s : Eng),
    stepMeasure s ≤ f1 → stepMeasure s ≤ f2 → run spec cfg t f1 s = run spec cfg t f2 s := by
  induction f1 with
  | zero =>
    intro f2 s h1 h2
    cases hs : step spec cfg t s with
    | none => rw [run_none hs, run_none hs]
    | some p => have := step_stepMeasure hw hs; omega
  | succ f1 ih =>
    intro f2 s h1 h2
    cases hs : step spec cfg t s with
    | none => rw [run_none hs, run_none hs]
    | some p =>
      obtain ⟨s', o⟩ := p
      have := step_stepMeasure hw hs
      cases f2 with
      | zero => omega
      | succ f2 => rw [run_some hs, run_some hs, ih f2 s' (by omega) (by omega)]

/-- `run` with exactly the fuel the measure asks for -/
def runQ (spec : AbsSpec) (cfg : Cfg) (t : Nat) (s : Eng) : Eng × Out := run spec cfg t (stepMeasure s) s

def addAcc (s : Eng) (b : Bytes) : Eng := { s with acc := s.acc ++ b }

theorem addAcc_nil (s : Eng) : addAcc s [] = s := by
  cases s; simp [addAcc]

theorem addAcc_addAcc (s : Eng) (a b : Bytes) : addAcc (addAcc s a) b = addAcc s (a ++ b) := by
  simp [addAcc, List.append_assoc]

theorem stepMeasure_le_fuelFor (s : Eng) : stepMeasure s ≤ fuelFor s := by
  have := mechBudget_le s.mech
  unfold stepMeasure fuelFor
  split <;> (try split) <;> (try split) <;> omega

theorem onNetworkBytes_eq (hw : WellBehaved spec) (t : Nat) (s : Eng) (d : Bytes) :
    onNetworkBytes spec cfg t s d = runQ spec cfg t (addAcc s d) :=
  run_fuel hw t _ _ _ (stepMeasure_le_fuelFor _) (Nat.le_refl _)

theorem runQ_none {t : Nat} {s : Eng} (h : step spec cfg t s = none) : runQ spec cfg t s = (s, {}) :=
  run_none h _

theorem runQ_some (hw : WellBehaved spec) {t : Nat} {s s' : Eng} {o : Out}
    (h : step spec cfg t s = some (s', o)) :
    runQ spec cfg t s = ((runQ spec cfg t s').1, o ++ (runQ spec cfg t s').2) := by
  have hm := step_stepMeasure hw h
  unfold runQ
  obtain ⟨k, hk⟩ : ∃ k, stepMeasure s = k + 1 := ⟨stepMeasure s - 1, by omega⟩
  rw [hk, run_some h, run_fuel hw t k (stepMeasure s') s' (by omega) (Nat.le_refl _)]

/-- strong induction on the measure -/
theorem stepMeasure_induction {P : Eng → Prop} (h : ∀ s, (∀ s', stepMeasure s' < stepMeasure s → P s') → P s) (s : Eng) : P s := by
  suffices ∀ n s, stepMeasure s < n → P s from this _ s (Nat.lt_succ_self _)
  intro n
  induction n with
  | zero => intro s hs; omega
  | succ n ih => intro s hs; exact h s (fun s' hs' => ih s' (by omega))

theorem runQ_quiescent (hw : WellBehaved spec) (t : Nat) (s : Eng) :
    step spec cfg t (runQ spec cfg t s).1 = none := by
  induction s using stepMeasure_induction with
  | h s ih =>
    cases hs : step spec cfg t s with
    | none => rw [runQ_none hs]; exact hs
    | some p =>
      obtain ⟨s', o⟩ := p
      rw [runQ_some hw hs]
      exact ih s' (step_stepMeasure hw hs)

theorem runQ_append (hw : WellBehaved spec) (t : Nat) (b : Bytes) (s : Eng) :
    runQ spec cfg t (addAcc s b) =
      ((runQ spec cfg t (addAcc (runQ spec cfg t s).1 b)).1,
       (runQ spec cfg t s).2 ++ (runQ spec cfg t (addAcc (runQ spec cfg t s).1 b)).2) := by
  induction s using stepMeasure_induction with
  | h s ih =>
    cases hs : step spec cfg t s with
    | none => rw [runQ_none hs]; simp
    | some p =>
      obtain ⟨s', o⟩ := p
      have hs' : step spec cfg t (addAcc s b) = some (addAcc s' b, o) := step_append hs b
      rw [runQ_some hw hs', ih s' (step_stepMeasure hw hs), runQ_some hw hs]
      simp [Out.append_assoc]

-- ---------------------------------------------------------------------------------------------
-- `run`: clock independence
-- ---------------------------------------------------------------------------------------------

def ClockEq (s1 s2 : Eng) : Prop := s1.eraseClock = s2.eraseClock

theorem ClockEq.rfl' (s : Eng) : ClockEq s s := rfl

theorem ClockEq.eq_with {s1 s2 : Eng} (h : ClockEq s1 s2) : s2 = { s1 with lastActivity := s2.lastActivity } := by
  cases s1; cases s2
  simp only [ClockEq, Eng.eraseClock, Eng.mk.injEq] at h ⊢
  simp [h]

theorem step_clock {s1 s2 : Eng} (h : ClockEq s1 s2) (t1 t2 : Nat) :
    (step spec cfg t1 s1).map eraseP = (step spec cfg t2 s2).map eraseP := by
  rw [h.eq_with]
  exact (step_clock_aux t1 t2 _ s1 _ rfl).symm

theorem stepMeasure_clock {s1 s2 : Eng} (h : ClockEq s1 s2) : stepMeasure s1 = stepMeasure s2 := by
  rw [h.eq_with]; rfl

theorem addAcc_clock {s1 s2 : Eng} (h : ClockEq s1 s2) (b : Bytes) : ClockEq (addAcc s1 b) (addAcc s2 b) := by
  rw [h.eq_with]; rfl

theorem step_none_clock {t : Nat} {s : Eng} (h : step spec cfg t s = none) (t' : Nat) :
    step spec cfg t' s = none := by
  have := step_clock (spec := spec) (cfg := cfg) (ClockEq.rfl' s) t t'
  rw [h] at this
  simpa using this.symm

theorem quiescent_of_step_none {t : Nat} {s : Eng} (h : step spec cfg t s = none) : Quiescent spec cfg s :=
  fun t' => step_none_clock h t'

theorem runQ_clock (hw : WellBehaved spec) (t1 t2 : Nat) (s1 : Eng) : ∀ s2, ClockEq s1 s2 →
    eraseP (runQ spec cfg t1 s1) = eraseP (runQ spec cfg t2 s2) := by
  induction s1 using stepMeasure_induction with
  | h s1 ih =>
    intro s2 h
    have hc := step_clock (spec := spec) (cfg := cfg) h t1 t2
    cases hs1 : step spec cfg t1 s1 with
    | none =>
      rw [hs1] at hc
      have hs2 : step spec cfg t2 s2 = none := by simpa using hc.symm
      rw [runQ_none hs1, runQ_none hs2]
      simp only [eraseP]; rw [h]
    | some p1 =>
      obtain ⟨s1', o1⟩ := p1
      cases hs2 : step spec cfg t2 s2 with
      | none => rw [hs1, hs2] at hc; simp at hc
      | some p2 =>
        obtain ⟨s2', o2⟩ := p2
        rw [hs1, hs2] at hc
        simp only [Option.map_some, Option.some.injEq, eraseP, Prod.mk.injEq] at hc
        obtain ⟨hc1, hc2⟩ := hc
        subst hc2
        have := ih s1' (step_stepMeasure hw hs1) s2' hc1
        simp only [eraseP, Prod.mk.injEq] at this
        rw [runQ_some hw hs1, runQ_some hw hs2]
        simp only [eraseP, this.1, this.2]

theorem onNetworkBytes_clock (hw : WellBehaved spec) (t1 t2 : Nat) {s1 s2 : Eng} (h : ClockEq s1 s2)
    (d : Bytes) :
    eraseP (onNetworkBytes spec cfg t1 s1 d) = eraseP (onNetworkBytes spec cfg t2 s2 d) := by
  rw [onNetworkBytes_eq hw, onNetworkBytes_eq hw]
  exact runQ_clock hw t1 t2 _ _ (addAcc_clock h d)

-- ---------------------------------------------------------------------------------------------
-- `onNetworkBytes` / `feedAll`
-- ---------------------------------------------------------------------------------------------

theorem quiescent_onNetworkBytes (hw : WellBehaved spec) (t : Nat) (s : Eng) (d : Bytes) :
    Quiescent spec cfg (onNetworkBytes spec cfg t s d).1 := by
  rw [onNetworkBytes_eq hw]
  exact quiescent_of_step_none (runQ_quiescent hw t _)

theorem onNetworkBytes_nil (hw : WellBehaved spec) (t : Nat) {s : Eng} (hq : Quiescent spec cfg s) :
    onNetworkBytes spec cfg t s [] = (s, {}) := by
  rw [onNetworkBytes_eq hw, addAcc_nil, runQ_none (hq t)]

theorem onNetworkBytes_append (hw : WellBehaved spec) (t : Nat) (s : Eng) (a b : Bytes) :
    onNetworkBytes spec cfg t s (a ++ b) =
      ((onNetworkBytes spec cfg t (onNetworkBytes spec cfg t s a).1 b).1,
       (onNetworkBytes spec cfg t s a).2 ++ (onNetworkBytes spec cfg t (onNetworkBytes spec cfg t s a).1 b).2) := by
  simp only [onNetworkBytes_eq hw]
  rw [← addAcc_addAcc, runQ_append hw]

theorem feedAll_same_clock (hw : WellBehaved spec) (t : Nat) (chunks : List Bytes) :
    ∀ s, Quiescent spec cfg s →
    feedAll spec cfg s (chunks.map fun c => (t, c)) = onNetworkBytes spec cfg t s chunks.flatten := by
  induction chunks with
  | nil => intro s hq; simp only [List.map_nil, feedAll, List.flatten_nil]; rw [onNetworkBytes_nil hw t hq]
  | cons c cs ih =>
    intro s hq
    simp only [List.map_cons, feedAll, List.flatten_cons]
    rw [ih _ (quiescent_onNetworkBytes hw t s c), onNetworkBytes_append hw]

theorem feedAll_clock (hw : WellBehaved spec) (t : Nat) (reads : List (Nat × Bytes)) :
    ∀ s1 s2, ClockEq s1 s2 →
    eraseP (feedAll spec cfg s1 reads) = eraseP (feedAll spec cfg s2 (reads.map fun r => (t, r.2))) := by
  induction reads with
  | nil => intro s1 s2 h; simp only [List.map_nil, feedAll, eraseP]; rw [h]
  | cons r rs ih =>
    intro s1 s2 h
    obtain ⟨t0, d⟩ := r
    have h1 := onNetworkBytes_clock (cfg := cfg) hw t0 t h d
    simp only [eraseP, Prod.mk.injEq] at h1
    have h2 := ih _ _ h1.1
    simp only [eraseP, Prod.mk.injEq] at h2
    simp only [List.map_cons, feedAll, eraseP, h1.2, h2.1, h2.2]

theorem feedAll_eraseP (hw : WellBehaved spec) (t : Nat) {s : Eng} (hq : Quiescent spec cfg s)
    (reads : List (Nat × Bytes)) :
    eraseP (feedAll spec cfg s reads) = eraseP (onNetworkBytes spec cfg t s (reads.map (·.2)).flatten) := by
  rw [feedAll_clock hw t reads s s rfl, ← feedAll_same_clock hw t _ s hq, List.map_map]
  rfl

theorem quiescent_feedAll (hw : WellBehaved spec) (reads : List (Nat × Bytes)) :
    ∀ s, Quiescent spec cfg s → Quiescent spec cfg (feedAll spec cfg s reads).1 := by
  induction reads with
  | nil => intro s hq; exact hq
  | cons r rs ih =>
    intro s _
    simp only [feedAll]
    exact ih _ (quiescent_onNetworkBytes hw _ _ _)

-- ---------------------------------------------------------------------------------------------
-- invariants and errors along `run` / `feedAll`
-- ---------------------------------------------------------------------------------------------

theorem step_closed {t : Nat} {s : Eng} (h : s.phase = .closed) : step spec cfg t s = none := by
  unfold step
  split
  · rfl
  · rw [h]

theorem run_closed {t : Nat} {s : Eng} (h : s.phase = .closed) (f : Nat) :
    run spec cfg t f s = (s, {}) := run_none (step_closed h) f

theorem run_inv (hlim : Gen.MAX_FRAMES_PER_MESSAGE ≤ cfg.frameLimit) (t : Nat) (f : Nat) :
    ∀ s, PanicInv s → PanicInv (run spec cfg t f s).1 := by
  induction f with
  | zero => intro s hi; exact hi
  | succ f ih =>
    intro s hi
    cases hs : step spec cfg t s with
    | none => rw [run_none hs]; exact hi
    | some p =>
      obtain ⟨s', o⟩ := p
      rw [run_some hs]
      exact ih s' (step_inv hlim hs hi)

theorem onNetworkBytes_inv (hlim : Gen.MAX_FRAMES_PER_MESSAGE ≤ cfg.frameLimit) (t : Nat) {s : Eng}
    (hi : PanicInv s) (d : Bytes) : PanicInv (onNetworkBytes spec cfg t s d).1 :=
  run_inv hlim t _ _ hi

theorem feedAll_inv (hlim : Gen.MAX_FRAMES_PER_MESSAGE ≤ cfg.frameLimit) (reads : List (Nat × Bytes)) :
    ∀ s, PanicInv s → PanicInv (feedAll spec cfg s reads).1 := by
  induction reads with
  | nil => intro s hi; exact hi
  | cons r rs ih =>
    intro s hi
    simp only [feedAll]
    exact ih _ (onNetworkBytes_inv hlim _ hi _)

theorem PanicInv_init : PanicInv Eng.init := ⟨rfl, Nat.zero_le _⟩

theorem run_peerError {t : Nat} {e : ErrClass} (f : Nat) : ∀ s,
    AppAct.peerError e ∈ (run spec cfg t f s).2.app → (run spec cfg t f s).1.phase = .closed := by
  induction f with
  | zero => intro s h; simp [run] at h
  | succ f ih =>
    intro s h
    cases hs : step spec cfg t s with
    | none => rw [run_none hs] at h; simp at h
    | some p =>
      obtain ⟨s', o⟩ := p
      rw [run_some hs] at h ⊢
      simp only [Out.app_append, List.mem_append] at h
      rcases h with h | h
      · rw [run_closed (step_peerError hs h)]
        exact step_peerError hs h
      · exact ih s' h

theorem quiescent_init' : Quiescent spec cfg Eng.init := by
  intro t
  simp [step, Eng.init, Gen.SIGNATURE_LENGTH]

/-- `C07.accumulator_bounded` with the hypothesis it needs (the one `engine_never_panics` has): without
`hlim` the model engine can reach `panicked = true`, after which nothing is ever consumed.  Before the data
phase an incomplete frame may be as large as the handshake limit `max m HANDSHAKE_FRAME_LIMIT`. -/
theorem accumulator_bounded_of_frameLimit (hw : WellBehaved spec) (m : Nat)
    (hm : cfg.maxMsgSize = (m : Int)) (hlim : Gen.MAX_FRAMES_PER_MESSAGE ≤ cfg.frameLimit)
    (reads : List (Nat × Bytes)) :
    let s := (feedAll spec cfg Eng.init reads).1
    s.phase ≠ .closed → s.sealed = false →
      s.acc.length < max 64 (9 + max m Gen.HANDSHAKE_FRAME_LIMIT) ∧ (s.phase = .data → s.acc.length < 9 + m) := by
  intro s hc hs
  have hq : Quiescent spec cfg s := quiescent_feedAll hw reads _ quiescent_init'
  have hi : PanicInv s := feedAll_inv hlim reads _ PanicInv_init
  exact step_none_bound hm (hq 0) hi.1 hc hs

-- ---------------------------------------------------------------------------------------------
-- `C07.accumulator_bounded` needs the `frameLimit` hypothesis: a concrete counterexample without it
-- (frameLimit = 0: the first data frame makes the model engine "panic", then nothing is consumed)
-- ---------------------------------------------------------------------------------------------

def accCeCfg : Cfg := { frameLimit := 0, maxMsgSize := 30 }
def accCeBytes : Bytes :=
  Gen.SIGNATURE ++ [3, 0] ++ Gen.mechName_null ++ [0] ++ List.replicate 31 0
    ++ readyBytes { sockType := .ROUTER } ++ [0, 0] ++ List.replicate 64 0

theorem wb_unavailable : WellBehaved AbsSpec.unavailable := fun _ _ _ _ _ => rfl

set_option maxRecDepth 100000 in
theorem accCe_fact :
    let s := (feedAll AbsSpec.unavailable accCeCfg Eng.init [(0, accCeBytes)]).1
    s.phase = .data ∧ s.sealed = false ∧ s.acc.length = 64 := by
  decide

/-- `C07.accumulator_bounded` is false without the `frameLimit` hypothesis. -/
theorem accumulator_bounded_false :
    ¬ (∀ (spec : AbsSpec) (_ : WellBehaved spec) (cfg : Cfg) (m : Nat)
        (_ : cfg.maxMsgSize = (m : Int)) (reads : List (Nat × Bytes)),
        let s := (feedAll spec cfg Eng.init reads).1
        s.phase ≠ .closed → s.sealed = false →
          s.acc.length < max 64 (9 + max m Gen.HANDSHAKE_FRAME_LIMIT)
            ∧ (s.phase = .data → s.acc.length < 9 + m)) := by
  intro h
  have h1 := h AbsSpec.unavailable wb_unavailable accCeCfg 30 rfl [(0, accCeBytes)]
  obtain ⟨h2, h3, h4⟩ := accCe_fact
  simp only at h1 h2 h3 h4
  have := (h1 (by rw [h2]; decide) h3).2 h2
  rw [h4] at this
  omega

end Rzmq
