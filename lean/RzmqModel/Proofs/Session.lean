import RzmqModel.Model.Session
namespace Rzmq
end Rzmq
