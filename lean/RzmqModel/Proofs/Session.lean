import RzmqModel.Model.Session
import RzmqModel.Props.C03
import RzmqModel.Proofs.Wire
/-!
Helper lemmas and invariants for `Props/C01.lean` (model: `Model/Session.lean`).
-/
namespace Rzmq

-- ---------------------------------------------------------------------------------------------
-- batch assembly
-- ---------------------------------------------------------------------------------------------

/-- sum of the wire-size estimates of a batch -/
def wsum (b : List Message) : Nat := (b.map wireSize).sum

theorem wsum_append (a b : List Message) : wsum (a ++ b) = wsum a + wsum b := by
  simp [wsum]

theorem wsum_singleton (m : Message) : wsum [m] = wireSize m := by
  simp [wsum]

/-- `takeWhileFits` splits its source: some prefix joins the batch, the rest is returned in order -/
theorem takeWhileFits_spec (mc mb : Nat) : ∀ (src batch : List Message) (total : Nat),
    ∃ k, (takeWhileFits mc mb batch src total).1 = batch ++ src.take k
       ∧ (takeWhileFits mc mb batch src total).2.2 = src.drop k := by
  intro src
  induction src with
  | nil => intro batch total; exact ⟨0, by simp [takeWhileFits]⟩
  | cons m rest ih =>
    intro batch total
    unfold takeWhileFits
    split
    · split
      · exact ⟨0, by simp⟩
      · obtain ⟨k, h1, h2⟩ := ih (batch ++ [m]) (total + wireSize m)
        exact ⟨k + 1, by simp [h1, h2]⟩
    · exact ⟨0, by simp⟩

theorem takeWhileFits_length (mc mb : Nat) : ∀ (src batch : List Message) (total : Nat),
    batch.length ≤ mc → (takeWhileFits mc mb batch src total).1.length ≤ mc := by
  intro src
  induction src with
  | nil => intro batch total h; simpa [takeWhileFits] using h
  | cons m rest ih =>
    intro batch total h
    unfold takeWhileFits
    split
    · split
      · exact h
      · apply ih; simp; omega
    · exact h

theorem takeWhileFits_bytes (mc mb : Nat) : ∀ (src batch : List Message) (total : Nat),
    total = wsum batch → (total ≤ mb ∨ batch.length ≤ 1) →
    (takeWhileFits mc mb batch src total).2.1 = wsum (takeWhileFits mc mb batch src total).1
    ∧ ((takeWhileFits mc mb batch src total).2.1 ≤ mb
        ∨ (takeWhileFits mc mb batch src total).1.length ≤ 1) := by
  intro src
  induction src with
  | nil => intro batch total h1 h2; simpa [takeWhileFits] using ⟨h1, h2⟩
  | cons m rest ih =>
    intro batch total h1 h2
    unfold takeWhileFits
    split
    · split
      · exact ⟨h1, h2⟩
      · rename_i hc
        apply ih
        · rw [wsum_append, wsum_singleton, h1]
        · simp only [Bool.and_eq_true, decide_eq_true_eq, Bool.not_eq_true', not_and,
            Bool.not_eq_false] at hc
          by_cases hgt : total + wireSize m > mb
          · right
            have := hc hgt
            simp only [List.isEmpty_iff] at this
            simp [this]
          · left; omega
    · exact ⟨h1, h2⟩

theorem acceptDrained_spec (mb : Nat) : ∀ (src batch : List Message) (total : Nat),
    ∃ k, (acceptDrained mb batch src total).1 = batch ++ src.take k
       ∧ (acceptDrained mb batch src total).2 = src.drop k := by
  intro src
  induction src with
  | nil => intro batch total; exact ⟨0, by simp [acceptDrained]⟩
  | cons m rest ih =>
    intro batch total
    unfold acceptDrained
    split
    · exact ⟨0, by simp⟩
    · obtain ⟨k, h1, h2⟩ := ih (batch ++ [m]) (total + wireSize m)
      exact ⟨k + 1, by simp [h1, h2]⟩

theorem acceptDrained_bytes (mb : Nat) : ∀ (src batch : List Message) (total : Nat),
    total = wsum batch → (total ≤ mb ∨ batch.length ≤ 1) →
    (wsum (acceptDrained mb batch src total).1 ≤ mb
        ∨ (acceptDrained mb batch src total).1.length ≤ 1) := by
  intro src
  induction src with
  | nil => intro batch total h1 h2; simpa [acceptDrained, ← h1] using h2
  | cons m rest ih =>
    intro batch total h1 h2
    unfold acceptDrained
    split
    · simpa [← h1] using h2
    · rename_i hc
      apply ih
      · rw [wsum_append, wsum_singleton, h1]
      · simp only [Bool.and_eq_true, decide_eq_true_eq, Bool.not_eq_true', not_and,
          Bool.not_eq_false] at hc
        by_cases hgt : total + wireSize m > mb
        · right
          have := hc hgt
          simp only [List.isEmpty_iff] at this
          simp [this]
        · left; omega

theorem needed_le (cfg : BatchCfg) (mc startLen total : Nat) :
    needed cfg mc startLen total ≤ mc - startLen := by
  unfold needed
  split
  · exact Nat.min_le_left _ _
  · exact Nat.zero_le _

theorem maxCount_pos (cfg : BatchCfg) (pending : Nat) (hc : 1 ≤ cfg.count) : 1 ≤ maxCount cfg pending := by
  unfold maxCount; omega

/-- shape of a carry-over pass: a prefix of the carry-over, topped up from the pipe only when the carry-over was
taken completely -/
theorem assembleFromCarry_spec (cfg : BatchCfg) (pending : Nat) (carry pipe : List Message) :
    ∃ k want j,
      (assembleFromCarry cfg pending carry pipe).batch = carry.take k ++ (pipe.take want).take j
      ∧ (assembleFromCarry cfg pending carry pipe).carry = carry.drop k ++ (pipe.take want).drop j
      ∧ (assembleFromCarry cfg pending carry pipe).pipe = pipe.drop want
      ∧ (carry.drop k ≠ [] → want = 0)
      ∧ (carry.take k).length ≤ maxCount cfg pending
      ∧ want ≤ maxCount cfg pending - (carry.take k).length := by
  simp only [assembleFromCarry]
  obtain ⟨k, h1, h2⟩ := takeWhileFits_spec (maxCount cfg pending) cfg.physical carry [] 0
  have h3 := takeWhileFits_length (maxCount cfg pending) cfg.physical carry [] 0 (Nat.zero_le _)
  generalize takeWhileFits (maxCount cfg pending) cfg.physical [] carry 0 = r at h1 h2 h3
  obtain ⟨b, t, c1⟩ := r
  simp only [List.nil_append] at h1 h2 h3 ⊢
  subst h1 h2
  generalize hw : (if (Gen.topUpOnlyIfCarryEmpty == 1 && !(List.drop k carry).isEmpty) = true then 0
    else needed cfg (maxCount cfg pending) (List.take k carry).length t) = want
  obtain ⟨j, g1, g2⟩ := acceptDrained_spec cfg.physical (pipe.take want) (List.take k carry) t
  refine ⟨k, want, j, g1, by rw [g2], rfl, ?_, h3, ?_⟩
  · intro hne
    have : (List.drop k carry).isEmpty = false := by
      cases h : (List.drop k carry).isEmpty
      · rfl
      · exact absurd (List.isEmpty_iff.mp h) hne
    rw [← hw]
    simp [Gen.topUpOnlyIfCarryEmpty, this]
  · rw [← hw]
    split
    · exact Nat.zero_le _
    · exact needed_le _ _ _ _

theorem assembleFromPipe_spec (cfg : BatchCfg) (pending : Nat) (first : Message) (pipe : List Message) :
    ∃ want j,
      (assembleFromPipe cfg pending first pipe).batch = first :: (pipe.take want).take j
      ∧ (assembleFromPipe cfg pending first pipe).carry = (pipe.take want).drop j
      ∧ (assembleFromPipe cfg pending first pipe).pipe = pipe.drop want
      ∧ want ≤ maxCount cfg pending - 1 := by
  simp only [assembleFromPipe]
  generalize hw : needed cfg (min cfg.count (max (max cfg.sndhwm 1 - pending) 1)) 1 (wireSize first) = want
  obtain ⟨j, g1, g2⟩ := acceptDrained_spec cfg.physical (pipe.take want) [first] (wireSize first)
  refine ⟨want, j, by simpa using g1, g2, rfl, ?_⟩
  rw [← hw]
  exact needed_le _ _ _ _

theorem assembleFromCarry_conserves (cfg : BatchCfg) (pending : Nat) (carry pipe : List Message) :
    (assembleFromCarry cfg pending carry pipe).batch ++ (assembleFromCarry cfg pending carry pipe).carry
      ++ (assembleFromCarry cfg pending carry pipe).pipe = carry ++ pipe := by
  obtain ⟨k, want, j, h1, h2, h3, h4, -, -⟩ := assembleFromCarry_spec cfg pending carry pipe
  rw [h1, h2, h3]
  by_cases hne : carry.drop k = []
  · have : carry.take k = carry := by
      conv => rhs; rw [← List.take_append_drop k carry, hne, List.append_nil]
    rw [hne, this]
    simp only [List.nil_append, List.append_assoc]
    rw [← List.append_assoc (List.take j _), List.take_append_drop, List.take_append_drop]
  · rw [h4 hne]
    simp

theorem assembleFromPipe_conserves (cfg : BatchCfg) (pending : Nat) (first : Message) (pipe : List Message) :
    (assembleFromPipe cfg pending first pipe).batch ++ (assembleFromPipe cfg pending first pipe).carry
      ++ (assembleFromPipe cfg pending first pipe).pipe = first :: pipe := by
  obtain ⟨want, j, h1, h2, h3, -⟩ := assembleFromPipe_spec cfg pending first pipe
  rw [h1, h2, h3]
  simp only [List.cons_append, List.append_assoc]
  rw [← List.append_assoc (List.take j _), List.take_append_drop, List.take_append_drop]

theorem assembleFromCarry_progress (cfg : BatchCfg) (pending : Nat) (carry pipe : List Message)
    (hc : 1 ≤ cfg.count) (hne : carry ≠ []) :
    (assembleFromCarry cfg pending carry pipe).batch ≠ [] := by
  have hmc := maxCount_pos cfg pending hc
  simp only [assembleFromCarry]
  cases carry with
  | nil => exact absurd rfl hne
  | cons m rest =>
    have e : takeWhileFits (maxCount cfg pending) cfg.physical [] (m :: rest) 0
        = takeWhileFits (maxCount cfg pending) cfg.physical [m] rest (0 + wireSize m) := by
      rw [takeWhileFits]
      simp only [List.length_nil, List.isEmpty_nil, Bool.not_true, Bool.and_false, Bool.false_eq_true,
        if_false, List.nil_append]
      exact if_pos hmc
    rw [e]
    obtain ⟨k, h1, -⟩ := takeWhileFits_spec (maxCount cfg pending) cfg.physical rest [m] (0 + wireSize m)
    generalize takeWhileFits (maxCount cfg pending) cfg.physical [m] rest (0 + wireSize m) = r at h1
    generalize hw : (if (Gen.topUpOnlyIfCarryEmpty == 1 && !r.2.2.isEmpty) = true then 0
      else needed cfg (maxCount cfg pending) r.1.length r.2.1) = want
    obtain ⟨j, g1, -⟩ := acceptDrained_spec cfg.physical (pipe.take want) r.1 r.2.1
    rw [g1, h1]
    simp

theorem assembleFromCarry_count (cfg : BatchCfg) (pending : Nat) (carry pipe : List Message) :
    (assembleFromCarry cfg pending carry pipe).batch.length ≤ maxCount cfg pending := by
  obtain ⟨k, want, j, h1, -, -, -, h5, h6⟩ := assembleFromCarry_spec cfg pending carry pipe
  rw [h1]
  simp only [List.length_append, List.length_take] at h5 h6 ⊢
  omega

theorem assembleFromPipe_count (cfg : BatchCfg) (pending : Nat) (first : Message) (pipe : List Message)
    (hc : 1 ≤ cfg.count) :
    (assembleFromPipe cfg pending first pipe).batch.length ≤ maxCount cfg pending := by
  have hmc := maxCount_pos cfg pending hc
  obtain ⟨want, j, h1, -, -, h4⟩ := assembleFromPipe_spec cfg pending first pipe
  rw [h1]
  simp only [List.length_cons, List.length_take]
  omega

theorem assembleFromCarry_bytes (cfg : BatchCfg) (pending : Nat) (carry pipe : List Message) :
    wsum (assembleFromCarry cfg pending carry pipe).batch ≤ cfg.physical
      ∨ (assembleFromCarry cfg pending carry pipe).batch.length ≤ 1 := by
  simp only [assembleFromCarry]
  obtain ⟨h1, h2⟩ := takeWhileFits_bytes (maxCount cfg pending) cfg.physical carry [] 0 rfl (Or.inl (Nat.zero_le _))
  exact acceptDrained_bytes _ _ _ _ h1 h2

/-- what a carry-over pass leaves in the carry-over is no longer than before, or at most one batch -/
theorem assembleFromCarry_carry_length (cfg : BatchCfg) (pending : Nat) (carry pipe : List Message) :
    (assembleFromCarry cfg pending carry pipe).carry.length ≤ max carry.length cfg.count := by
  obtain ⟨k, want, j, -, h2, -, h4, h5, h6⟩ := assembleFromCarry_spec cfg pending carry pipe
  rw [h2]
  have hm : maxCount cfg pending ≤ cfg.count := Nat.min_le_left _ _
  by_cases hne : carry.drop k = []
  · rw [hne]
    simp only [List.nil_append, List.length_drop, List.length_take]
    omega
  · rw [h4 hne]
    simp only [List.take_zero, List.drop_nil, List.append_nil, List.length_drop]
    omega

theorem assembleFromPipe_carry_length (cfg : BatchCfg) (pending : Nat) (first : Message) (pipe : List Message) :
    (assembleFromPipe cfg pending first pipe).carry.length ≤ cfg.count := by
  obtain ⟨want, j, -, h2, -, h4⟩ := assembleFromPipe_spec cfg pending first pipe
  rw [h2]
  have hm : maxCount cfg pending ≤ cfg.count := Nat.min_le_left _ _
  simp only [List.length_drop, List.length_take]
  omega

-- ---------------------------------------------------------------------------------------------
-- egress buffer
-- ---------------------------------------------------------------------------------------------

theorem advance_zero (fuel : Nat) (e : Egress) : Egress.advance fuel e 0 = e := by
  cases fuel <;> rfl

theorem advance_nil (fuel : Nat) (e : Egress) (n : Nat) (h : e.chunks = []) : Egress.advance fuel e n = e := by
  cases fuel with
  | zero => rfl
  | succ fuel =>
    cases n with
    | zero => rfl
    | succ n => simp only [Egress.advance, h]

/-- the state after the head chunk `h` has been written completely -/
def Egress.pop (e : Egress) (h : Chunk) (rest : List Chunk) : Egress :=
  { e with chunks := rest, offset := 0, msgCount := e.msgCount - h.msgs,
           written := e.written ++ h.data.drop e.offset, done := e.done ++ [h] }

/-- one round of `advance` on a non-empty buffer -/
theorem advance_cons (fuel : Nat) (e : Egress) (n : Nat) (h : Chunk) (rest : List Chunk) (hc : e.chunks = h :: rest) :
    Egress.advance (fuel + 1) e (n + 1) =
      if n + 1 ≥ h.data.length - e.offset then
        Egress.advance fuel (e.pop h rest) (n + 1 - (h.data.length - e.offset))
      else { e with offset := e.offset + (n + 1), written := e.written ++ (h.data.drop e.offset).take (n + 1) } := by
  simp only [Egress.advance, hc, Egress.pop]

theorem advance_spec : ∀ (fuel : Nat) (e : Egress) (n : Nat), e.chunks.length + 1 ≤ fuel →
    (Egress.advance fuel e n).written = e.written ++ e.pendingBytes.take n
    ∧ (Egress.advance fuel e n).pendingBytes = e.pendingBytes.drop n := by
  intro fuel
  induction fuel with
  | zero => intro e n h; omega
  | succ fuel ih =>
    intro e n hf
    cases n with
    | zero => simp [advance_zero]
    | succ n =>
      cases hc : e.chunks with
      | nil => simp [advance_nil _ _ _ hc, Egress.pendingBytes, hc]
      | cons h rest =>
        rw [advance_cons fuel e n h rest hc]
        have hp : e.pendingBytes = h.data.drop e.offset ++ (rest.map (·.data)).flatten := by
          simp only [Egress.pendingBytes, hc]
        have hl : (h.data.drop e.offset).length = h.data.length - e.offset := List.length_drop
        split
        · rename_i hge
          have hf' : rest.length + 1 ≤ fuel := by
            rw [hc] at hf; simp only [List.length_cons] at hf; omega
          obtain ⟨i1, i2⟩ := ih (e.pop h rest) (n + 1 - (h.data.length - e.offset)) hf'
          have hp2 : Egress.pendingBytes (e.pop h rest) = (rest.map (·.data)).flatten := by
            simp only [Egress.pendingBytes, Egress.pop]
            cases rest <;> simp
          have t1 : List.take (n + 1) e.pendingBytes = h.data.drop e.offset ++
              List.take (n + 1 - (h.data.length - e.offset)) (rest.map (·.data)).flatten := by
            rw [hp, List.take_append, hl, List.take_of_length_le (by omega)]
          have t2 : List.drop (n + 1) e.pendingBytes =
              List.drop (n + 1 - (h.data.length - e.offset)) (rest.map (·.data)).flatten := by
            rw [hp, List.drop_append, hl, List.drop_of_length_le (by omega), List.nil_append]
          rw [i1, i2, hp2, t1, t2]
          simp [Egress.pop]
        · rename_i hlt
          simp only [Egress.pendingBytes, hc]
          rw [List.take_append_of_le_length (by omega), List.drop_append_of_le_length (by omega)]
          simp
theorem pushPriority_pending (e : Egress) (f : List UInt8) (hoff : e.offset > 0 → e.chunks ≠ []) :
    (e.pushPriority f).pendingBytes =
      (match e.chunks with
       | [] => f
       | h :: rest => if e.offset > 0 then h.data.drop e.offset ++ f ++ (rest.map (·.data)).flatten
                      else f ++ e.pendingBytes) := by
  unfold Egress.pushPriority
  by_cases hf : f.isEmpty = true
  · have : f = [] := List.isEmpty_iff.mp hf
    subst this
    cases hc : e.chunks with
    | nil => simp [Egress.pendingBytes, hc]
    | cons h rest =>
      simp only [List.isEmpty_nil, if_true, Egress.pendingBytes, hc, List.append_nil, List.nil_append]
      split <;> rfl
  · simp only [hf, Bool.false_eq_true, if_false]
    by_cases ho : e.offset > 0
    · simp only [ho, if_true]
      cases hc : e.chunks with
      | nil => exact absurd hc (hoff ho)
      | cons h rest => simp [Egress.pendingBytes]
    · have h0 : e.offset = 0 := by omega
      simp only [ho, if_false]
      cases hc : e.chunks with
      | nil => simp [Egress.pendingBytes, h0]
      | cons h rest => simp [Egress.pendingBytes, h0, hc]

/-- `advance` only moves chunks from the front of `chunks` to the back of `done` -/
theorem advance_done_chunks : ∀ (fuel : Nat) (e : Egress) (n : Nat),
    (Egress.advance fuel e n).done ++ (Egress.advance fuel e n).chunks = e.done ++ e.chunks := by
  intro fuel
  induction fuel with
  | zero => intro e n; rfl
  | succ fuel ih =>
    intro e n
    cases n with
    | zero => rfl
    | succ n =>
      cases hc : e.chunks with
      | nil => rw [advance_nil _ _ _ hc, hc]
      | cons h rest =>
        rw [advance_cons fuel e n h rest hc]
        split
        · rw [ih]; simp [Egress.pop]
        · simp [hc]

theorem advance_msgCount_le : ∀ (fuel : Nat) (e : Egress) (n : Nat),
    (Egress.advance fuel e n).msgCount ≤ e.msgCount := by
  intro fuel
  induction fuel with
  | zero => intro e n; exact Nat.le_refl _
  | succ fuel ih =>
    intro e n
    cases n with
    | zero => exact Nat.le_refl _
    | succ n =>
      cases hc : e.chunks with
      | nil => rw [advance_nil _ _ _ hc]; exact Nat.le_refl _
      | cons h rest =>
        rw [advance_cons fuel e n h rest hc]
        split
        · exact Nat.le_trans (ih _ _) (by simp [Egress.pop])
        · exact Nat.le_refl _

/-- what has reached the transport is whole chunks plus a prefix of the head chunk; an empty buffer has offset 0 -/
def Egress.Aligned (e : Egress) : Prop :=
  e.written = ((e.done.map (·.data)).flatten) ++ ((e.chunks.head?.map (·.data.take e.offset)).getD [])
  ∧ (e.chunks = [] → e.offset = 0)

theorem aligned_init : Egress.Aligned {} := by
  simp [Egress.Aligned]

theorem advance_aligned : ∀ (fuel : Nat) (e : Egress) (n : Nat), e.Aligned → (Egress.advance fuel e n).Aligned := by
  intro fuel
  induction fuel with
  | zero => intro e n h; exact h
  | succ fuel ih =>
    intro e n hal
    cases n with
    | zero => exact hal
    | succ n =>
      cases hc : e.chunks with
      | nil => rw [advance_nil _ _ _ hc]; exact hal
      | cons h rest =>
        rw [advance_cons fuel e n h rest hc]
        obtain ⟨hw, -⟩ := hal
        simp only [hc, List.head?_cons, Option.map_some, Option.getD_some] at hw
        split
        · apply ih
          refine ⟨?_, fun _ => rfl⟩
          simp only [Egress.pop, hw, List.map_append, List.flatten_append, List.map_cons, List.map_nil,
            List.flatten_cons, List.flatten_nil, List.append_nil, List.append_assoc, List.take_append_drop]
          cases rest <;> simp
        · refine ⟨?_, fun h' => by simp [hc] at h'⟩
          simp only [hc, List.head?_cons, Option.map_some, Option.getD_some, hw, List.append_assoc]
          congr 1
          exact (List.take_add (l := h.data) (i := e.offset) (j := n + 1)).symm

theorem push_aligned (e : Egress) (d : List UInt8) (n : Nat) (h : e.Aligned) : (e.push d n).Aligned := by
  unfold Egress.push
  split
  · exact h
  · obtain ⟨hw, h0⟩ := h
    refine ⟨?_, by simp⟩
    cases hc : e.chunks with
    | nil => simp [hw, hc, h0 hc]
    | cons c rest => simp [hw, hc]

theorem pushPriority_aligned (e : Egress) (d : List UInt8) (h : e.Aligned) : (e.pushPriority d).Aligned := by
  unfold Egress.pushPriority
  obtain ⟨hw, h0⟩ := h
  split
  · exact ⟨hw, h0⟩
  · split
    · rename_i ho
      cases hc : e.chunks with
      | nil => have := h0 hc; omega
      | cons c rest =>
        refine ⟨?_, by simp⟩
        simp [hw, hc]
    · rename_i ho
      have h00 : e.offset = 0 := by omega
      refine ⟨?_, by simp⟩
      cases hc : e.chunks with
      | nil => simp [hw, hc, h00]
      | cons c rest => simp [hw, hc, h00]

-- data bytes ------------------------------------------------------------------------------------

theorem push_dataBytes (e : Egress) (d : List UInt8) (n : Nat) : (e.push d n).dataBytes = e.dataBytes ++ d := by
  unfold Egress.push
  split
  · rename_i hd
    rw [List.isEmpty_iff.mp hd, List.append_nil]
  · simp [Egress.dataBytes, ← List.append_assoc]

theorem pushPriority_dataBytes (e : Egress) (d : List UInt8) : (e.pushPriority d).dataBytes = e.dataBytes := by
  unfold Egress.pushPriority
  split
  · rfl
  · split
    · cases hc : e.chunks with
      | nil => simp [Egress.dataBytes, hc]
      | cons c rest => simp [Egress.dataBytes, hc, List.filter_cons]
    · simp [Egress.dataBytes]

theorem advance_dataBytes (fuel : Nat) (e : Egress) (n : Nat) : (Egress.advance fuel e n).dataBytes = e.dataBytes := by
  simp only [Egress.dataBytes, advance_done_chunks]

-- ---------------------------------------------------------------------------------------------
-- the send path
-- ---------------------------------------------------------------------------------------------

theorem frameBatch_append (a b : List Message) : frameBatch (a ++ b) = frameBatch a ++ frameBatch b := by
  simp [frameBatch, frameContiguous]

theorem frameBatch_nil : frameBatch [] = [] := rfl

/-- induction over an event sequence, the step hypothesis restricted to the events that occur -/
theorem SendPath.run_induction (P : SendPath → Prop) (evs : List SendEv) :
    ∀ (s : SendPath), P s → (∀ s ev, ev ∈ evs → P s → P (s.step ev)) → P (s.run evs) := by
  induction evs with
  | nil => intro s h _; exact h
  | cons ev evs ih =>
    intro s h hstep
    simp only [SendPath.run, List.foldl_cons]
    exact ih (s.step ev) (hstep s ev (List.mem_cons_self ..) h)
      (fun s' ev' hm hp => hstep s' ev' (List.mem_cons_of_mem _ hm) hp)

theorem SendPath.step_cfg (s : SendPath) (ev : SendEv) : (s.step ev).cfg = s.cfg := by
  cases ev <;> simp only [SendPath.step]
  · split <;> rfl
  · split
    · split <;> rfl
    · rfl

theorem SendPath.run_cfg (s : SendPath) (evs : List SendEv) : (s.run evs).cfg = s.cfg :=
  SendPath.run_induction (fun t => t.cfg = s.cfg) evs s rfl (fun t ev _ h => by rw [SendPath.step_cfg, h])

/-- the pipe branch is only taken with an empty carry-over (rests on `Gen.pipeBranchNeedsEmptyCarry = 1`) -/
theorem pipe_guard_carry_nil {s : SendPath}
    (h : ((s.carry.isEmpty || Gen.pipeBranchNeedsEmptyCarry == 0) && s.gateOpen) = true) :
    s.carry = [] ∧ s.gateOpen = true := by
  simp only [Gen.pipeBranchNeedsEmptyCarry, Bool.and_eq_true, Bool.or_eq_true, beq_iff_eq] at h
  obtain ⟨h1, h2⟩ := h
  refine ⟨?_, h2⟩
  cases h1 with
  | inl h => exact List.isEmpty_iff.mp h
  | inr h => exact absurd h (by decide)

/-- every step appends exactly the framing of the newly accepted message (if any) to the wire order -/
theorem SendPath.step_wire (s : SendPath) (ev : SendEv) :
    (s.step ev).wire = s.wire ++ (match ev with | .accept m => frameBatch [m] | _ => [])
    ∧ (s.step ev).accepted = s.accepted ++ (match ev with | .accept m => [m] | _ => []) := by
  cases ev with
  | accept m => simp [SendPath.step, SendPath.wire, frameBatch_append]
  | assembleCarry =>
    simp only [SendPath.step]
    split
    · refine ⟨?_, by simp⟩
      simp only [SendPath.wire, push_dataBytes, List.append_nil, List.append_assoc]
      rw [← frameBatch_append, ← frameBatch_append, ← List.append_assoc, assembleFromCarry_conserves,
        frameBatch_append]
    · simp
  | assemblePipe =>
    simp only [SendPath.step]
    split
    · rename_i hg
      obtain ⟨hcn, -⟩ := pipe_guard_carry_nil hg
      split
      · simp
      · rename_i first rest hp
        refine ⟨?_, by simp⟩
        simp only [SendPath.wire, push_dataBytes, List.append_nil, List.append_assoc, hcn, List.nil_append, hp,
          frameBatch_nil]
        rw [← frameBatch_append, ← frameBatch_append, ← List.append_assoc, assembleFromPipe_conserves]
    · simp
  | written n => simp [SendPath.step, SendPath.wire, advance_dataBytes]
  | control f => simp [SendPath.step, SendPath.wire, pushPriority_dataBytes]

theorem SendPath.step_fifo (s : SendPath) (ev : SendEv) (h : s.wire = frameBatch s.accepted) :
    (s.step ev).wire = frameBatch (s.step ev).accepted := by
  obtain ⟨h1, h2⟩ := SendPath.step_wire s ev
  rw [h1, h2, frameBatch_append, h]
  cases ev <;> rfl

theorem SendPath.run_fifo (cfg : BatchCfg) (evs : List SendEv) :
    (SendPath.run { cfg := cfg } evs).wire = frameBatch (SendPath.run { cfg := cfg } evs).accepted :=
  SendPath.run_induction (fun t => t.wire = frameBatch t.accepted) evs _ rfl
    (fun t ev _ h => SendPath.step_fifo t ev h)

theorem SendPath.step_aligned (s : SendPath) (ev : SendEv) (h : s.egress.Aligned) : (s.step ev).egress.Aligned := by
  cases ev with
  | accept m => exact h
  | assembleCarry =>
    simp only [SendPath.step]
    split
    · exact push_aligned _ _ _ h
    · exact h
  | assemblePipe =>
    simp only [SendPath.step]
    split
    · split
      · exact h
      · exact push_aligned _ _ _ h
    · exact h
  | written n => exact advance_aligned _ _ _ h
  | control f => exact pushPriority_aligned _ _ h

theorem SendPath.run_aligned (cfg : BatchCfg) (evs : List SendEv) :
    (SendPath.run { cfg := cfg } evs).egress.Aligned :=
  SendPath.run_induction (fun t => t.egress.Aligned) evs _ aligned_init
    (fun t ev _ h => SendPath.step_aligned t ev h)

-- no control traffic: no priority chunks ----------------------------------------------------------

def Egress.NoPrio (e : Egress) : Prop := ∀ c ∈ e.done ++ e.chunks, c.prio = false

theorem push_noPrio (e : Egress) (d : List UInt8) (n : Nat) (h : e.NoPrio) : (e.push d n).NoPrio := by
  unfold Egress.push
  split
  · exact h
  · intro c hc
    simp only [← List.append_assoc, List.mem_append, List.mem_singleton] at hc
    cases hc with
    | inl hc => exact h c (List.mem_append.mpr hc)
    | inr hc => rw [hc]

theorem advance_noPrio (fuel : Nat) (e : Egress) (n : Nat) (h : e.NoPrio) : (Egress.advance fuel e n).NoPrio := by
  unfold Egress.NoPrio
  rw [advance_done_chunks]
  exact h

theorem noPrio_dataBytes (e : Egress) (h : e.NoPrio) : e.dataBytes = ((e.done ++ e.chunks).map (·.data)).flatten := by
  unfold Egress.dataBytes
  rw [List.filter_eq_self.mpr]
  intro c hc
  simp [h c hc]

theorem SendPath.step_noPrio (s : SendPath) (ev : SendEv) (hctl : ∀ f, ev ≠ .control f) (h : s.egress.NoPrio) :
    (s.step ev).egress.NoPrio := by
  cases ev with
  | accept m => exact h
  | assembleCarry =>
    simp only [SendPath.step]
    split
    · exact push_noPrio _ _ _ h
    · exact h
  | assemblePipe =>
    simp only [SendPath.step]
    split
    · split
      · exact h
      · exact push_noPrio _ _ _ h
    · exact h
  | written n => exact advance_noPrio _ _ _ h
  | control f => exact absurd rfl (hctl f)

theorem SendPath.run_noPrio (cfg : BatchCfg) (evs : List SendEv) (hctl : ∀ e ∈ evs, ∀ f, e ≠ .control f) :
    (SendPath.run { cfg := cfg } evs).egress.NoPrio :=
  SendPath.run_induction (fun t => t.egress.NoPrio) evs _ (by intro c hc; simp at hc)
    (fun t ev hm h => SendPath.step_noPrio t ev (hctl ev hm) h)

theorem SendPath.run_drained (cfg : BatchCfg) (evs : List SendEv) (hctl : ∀ e ∈ evs, ∀ f, e ≠ .control f)
    (h1 : (SendPath.run { cfg := cfg } evs).egress.chunks = [])
    (h2 : (SendPath.run { cfg := cfg } evs).carry = [])
    (h3 : (SendPath.run { cfg := cfg } evs).pipe = []) :
    (SendPath.run { cfg := cfg } evs).egress.written = frameBatch (SendPath.run { cfg := cfg } evs).accepted := by
  have hf := SendPath.run_fifo cfg evs
  have ha := (SendPath.run_aligned cfg evs).1
  have hn := noPrio_dataBytes _ (SendPath.run_noPrio cfg evs hctl)
  rw [← hf, SendPath.wire, h2, h3, hn, ha, h1]
  simp [frameBatch_nil]

-- buffer bounds ----------------------------------------------------------------------------------

theorem push_msgCount_le (e : Egress) (d : List UInt8) (n : Nat) : (e.push d n).msgCount ≤ e.msgCount + n := by
  unfold Egress.push
  split
  · exact Nat.le_add_right _ _
  · exact Nat.le_refl _

theorem maxCount_budget (cfg : BatchCfg) (pending : Nat) (h : pending < max cfg.sndhwm 1) :
    pending + maxCount cfg pending ≤ max cfg.sndhwm 1 := by
  unfold maxCount
  omega

theorem SendPath.step_bounded (s : SendPath) (ev : SendEv) (hc : 1 ≤ s.cfg.count)
    (h : s.egress.msgCount ≤ max s.cfg.sndhwm 1 ∧ s.carry.length ≤ s.cfg.count) :
    (s.step ev).egress.msgCount ≤ max s.cfg.sndhwm 1 ∧ (s.step ev).carry.length ≤ s.cfg.count := by
  obtain ⟨hm, hl⟩ := h
  cases ev with
  | accept m => exact ⟨hm, hl⟩
  | assembleCarry =>
    simp only [SendPath.step]
    split
    · rename_i hg
      simp only [Bool.and_eq_true, SendPath.gateOpen, decide_eq_true_eq] at hg
      refine ⟨?_, ?_⟩
      · have h1 := push_msgCount_le s.egress
          (frameBatch (assembleFromCarry s.cfg s.egress.msgCount s.carry s.pipe).batch)
          (assembleFromCarry s.cfg s.egress.msgCount s.carry s.pipe).batch.length
        have h2 := assembleFromCarry_count s.cfg s.egress.msgCount s.carry s.pipe
        have h3 := maxCount_budget s.cfg s.egress.msgCount hg.2
        simp only at h1 ⊢
        omega
      · have := assembleFromCarry_carry_length s.cfg s.egress.msgCount s.carry s.pipe
        simp only
        omega
    · exact ⟨hm, hl⟩
  | assemblePipe =>
    simp only [SendPath.step]
    split
    · rename_i hg
      obtain ⟨hcn, hgo⟩ := pipe_guard_carry_nil hg
      simp only [SendPath.gateOpen, decide_eq_true_eq] at hgo
      split
      · exact ⟨hm, hl⟩
      · rename_i first rest hp
        refine ⟨?_, ?_⟩
        · have h1 := push_msgCount_le s.egress
            (frameBatch (assembleFromPipe s.cfg s.egress.msgCount first rest).batch)
            (assembleFromPipe s.cfg s.egress.msgCount first rest).batch.length
          have h2 := assembleFromPipe_count s.cfg s.egress.msgCount first rest hc
          have h3 := maxCount_budget s.cfg s.egress.msgCount hgo
          simp only at h1 ⊢
          omega
        · have := assembleFromPipe_carry_length s.cfg s.egress.msgCount first rest
          simp only [hcn, List.nil_append]
          exact this
    · exact ⟨hm, hl⟩
  | written n =>
    refine ⟨Nat.le_trans (advance_msgCount_le _ _ _) hm, hl⟩
  | control f =>
    refine ⟨?_, hl⟩
    simp only [SendPath.step, Egress.pushPriority]
    split
    · exact hm
    · split
      · split <;> exact hm
      · exact hm

theorem SendPath.run_bounded (cfg : BatchCfg) (evs : List SendEv) (hc : 1 ≤ cfg.count) :
    (SendPath.run { cfg := cfg } evs).egress.msgCount ≤ max cfg.sndhwm 1
    ∧ (SendPath.run { cfg := cfg } evs).carry.length ≤ cfg.count := by
  have := SendPath.run_induction
    (fun t => t.cfg = cfg ∧ t.egress.msgCount ≤ max t.cfg.sndhwm 1 ∧ t.carry.length ≤ t.cfg.count) evs
    { cfg := cfg } ⟨rfl, Nat.zero_le _, Nat.zero_le _⟩
    (fun t ev _ h => by
      obtain ⟨h0, h1⟩ := h
      have := SendPath.step_bounded t ev (by rw [h0]; exact hc) h1
      rw [SendPath.step_cfg]
      exact ⟨h0, this⟩)
  obtain ⟨h0, h1⟩ := this
  rw [h0] at h1
  exact h1

-- ---------------------------------------------------------------------------------------------
-- the receive path
-- ---------------------------------------------------------------------------------------------

theorem RecvPath.run_induction (P : RecvPath → Prop) (evs : List RecvEv) :
    ∀ (r : RecvPath), P r → (∀ r ev, P r → P (r.step ev)) → P (r.run evs) := by
  induction evs with
  | nil => intro r h _; exact h
  | cons ev evs ih =>
    intro r h hstep
    simp only [RecvPath.run, List.foldl_cons]
    exact ih (r.step ev) (hstep r ev h) hstep

theorem RecvPath.step_fifo (r : RecvPath) (ev : RecvEv) (h : r.delivered ++ r.queue ++ r.buffer = r.decoded) :
    (r.step ev).delivered ++ (r.step ev).queue ++ (r.step ev).buffer = (r.step ev).decoded := by
  cases ev with
  | read msgs =>
    simp only [RecvPath.step]
    split
    · rename_i hb
      rw [List.isEmpty_iff.mp hb, List.append_nil] at h
      simp only [h]
    · exact h
  | drainBatch =>
    simp only [RecvPath.step, List.append_assoc, List.take_append_drop]
    simpa using h
  | sendOne =>
    simp only [RecvPath.step]
    split
    · exact h
    · rename_i m rest hb
      split
      · simp only [← h, hb, List.append_assoc, List.cons_append, List.nil_append]
      · exact h
  | sendCancelled => exact h
  | appRecv =>
    simp only [RecvPath.step]
    split
    · exact h
    · rename_i m rest hq
      simp only [← h, hq, List.append_assoc, List.cons_append, List.nil_append]

theorem RecvPath.run_fifo (r0 : Nat) (evs : List RecvEv) :
    (RecvPath.run { rcvhwm := r0 } evs).delivered ++ (RecvPath.run { rcvhwm := r0 } evs).queue
      ++ (RecvPath.run { rcvhwm := r0 } evs).buffer = (RecvPath.run { rcvhwm := r0 } evs).decoded :=
  RecvPath.run_induction (fun r => r.delivered ++ r.queue ++ r.buffer = r.decoded) evs _ rfl RecvPath.step_fifo

theorem RecvPath.step_queue (r : RecvPath) (ev : RecvEv) (h : r.queue.length ≤ max r.rcvhwm 1) :
    (r.step ev).rcvhwm = r.rcvhwm ∧ (r.step ev).queue.length ≤ max r.rcvhwm 1 := by
  cases ev with
  | read msgs =>
    simp only [RecvPath.step]
    split <;> exact ⟨rfl, h⟩
  | drainBatch =>
    refine ⟨rfl, ?_⟩
    simp only [RecvPath.step, List.length_append, List.length_take]
    omega
  | sendOne =>
    simp only [RecvPath.step]
    split
    · exact ⟨rfl, h⟩
    · split
      · refine ⟨rfl, ?_⟩
        simp only [List.length_append, List.length_singleton]
        omega
      · exact ⟨rfl, h⟩
  | sendCancelled => exact ⟨rfl, h⟩
  | appRecv =>
    simp only [RecvPath.step]
    split
    · exact ⟨rfl, h⟩
    · rename_i m rest hq
      refine ⟨rfl, ?_⟩
      rw [hq] at h
      simp only [List.length_cons] at h
      show rest.length ≤ max r.rcvhwm 1
      omega

theorem RecvPath.run_queue (r0 : Nat) (evs : List RecvEv) :
    (RecvPath.run { rcvhwm := r0 } evs).queue.length ≤ max r0 1 := by
  have := RecvPath.run_induction (fun r => r.rcvhwm = r0 ∧ r.queue.length ≤ max r.rcvhwm 1) evs
    { rcvhwm := r0 } ⟨rfl, Nat.zero_le _⟩
    (fun r ev h => by
      obtain ⟨h0, h1⟩ := h
      obtain ⟨g0, g1⟩ := RecvPath.step_queue r ev h1
      rw [g0]
      exact ⟨h0, g1⟩)
  obtain ⟨h0, h1⟩ := this
  rw [h0] at h1
  exact h1

-- ---------------------------------------------------------------------------------------------
-- regrouping
-- ---------------------------------------------------------------------------------------------

/-- one well-formed message at the front of the frame stream is regrouped as one message -/
theorem regroup_msg : ∀ (m : Message) (acc rest : List Frame), m ≠ [] →
    (∀ f ∈ m.dropLast, f.more = true) → (∀ f, m.getLast? = some f → f.more = false) →
    regroup acc (m ++ rest) = ((acc ++ m) :: (regroup [] rest).1, (regroup [] rest).2) := by
  intro m
  induction m with
  | nil => intro acc rest h; exact absurd rfl h
  | cons f tl ih =>
    intro acc rest _ hd hl
    cases tl with
    | nil =>
      have hf : f.more = false := hl f rfl
      simp only [List.cons_append, List.nil_append, regroup, hf, Bool.false_eq_true, if_false]
    | cons g tl =>
      have hf : f.more = true := hd f (by simp [List.dropLast])
      have := ih (acc ++ [f]) rest (by simp)
        (fun x hx => hd x (by simp only [List.dropLast_cons_cons, List.mem_cons]; exact Or.inr hx))
        (fun x hx => hl x (by simpa [List.getLast?_cons_cons] using hx))
      rw [List.cons_append, regroup, if_pos hf, this]
      simp

theorem regroup_flatten' (ms : List Message)
    (h : ∀ m ∈ ms, m ≠ [] ∧ (∀ f ∈ m.dropLast, f.more = true) ∧ (∀ f, m.getLast? = some f → f.more = false)) :
    regroup [] ms.flatten = (ms, []) := by
  induction ms with
  | nil => rfl
  | cons m ms ih =>
    obtain ⟨h1, h2, h3⟩ := h m (List.mem_cons_self ..)
    rw [List.flatten_cons, regroup_msg m [] ms.flatten h1 h2 h3,
      ih (fun m' hm' => h m' (List.mem_cons_of_mem _ hm'))]
    rfl

-- ---------------------------------------------------------------------------------------------
-- end to end
-- ---------------------------------------------------------------------------------------------

theorem feed_written (cfg : BatchCfg) (evs : List SendEv) (max : Int) (cuts : List (List UInt8))
    (hctl : ∀ e ∈ evs, ∀ f, e ≠ .control f)
    (h1 : (SendPath.run { cfg := cfg } evs).egress.chunks = [])
    (h2 : (SendPath.run { cfg := cfg } evs).carry = [])
    (h3 : (SendPath.run { cfg := cfg } evs).pipe = [])
    (hok : ∀ m ∈ (SendPath.run { cfg := cfg } evs).accepted, ∀ f ∈ m, C03.FrameOk f ∧ C03.Admits max f)
    (hcuts : cuts.flatten = (SendPath.run { cfg := cfg } evs).egress.written) :
    (feedChunks max {} cuts).2 = (SendPath.run { cfg := cfg } evs).accepted.flatten := by
  apply C03.roundtrip_any_cuts
  · intro f hf
    obtain ⟨m, hm, hfm⟩ := List.mem_flatten.mp hf
    exact (hok m hm f hfm).1
  · intro f hf
    obtain ⟨m, hm, hfm⟩ := List.mem_flatten.mp hf
    exact (hok m hm f hfm).2
  · rw [hcuts, SendPath.run_drained cfg evs hctl h1 h2 h3, frameBatch, C03.frameContiguous_eq]

end Rzmq
