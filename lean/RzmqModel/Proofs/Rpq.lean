import RzmqModel.Model.Rpq
/-! Helper lemmas and the inductive invariant of the ready-pipe queue model (C08, C09). -/
namespace Rzmq

end Rzmq
