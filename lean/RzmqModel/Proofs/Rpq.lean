import RzmqModel.Model.Rpq
/-! Helper lemmas and the inductive invariant of the ready-pipe queue model (C08, C09). -/
set_option linter.unusedSimpArgs false
set_option linter.unusedVariables false
namespace Rzmq

-- ---------------------------------------------------------------------------------------------
-- Bool → Int indicator, sums
-- ---------------------------------------------------------------------------------------------

/-- indicator of a Boolean as an integer -/
def b2i (b : Bool) : Int := if b then 1 else 0

@[simp] theorem b2i_true : b2i true = 1 := rfl
@[simp] theorem b2i_false : b2i false = 0 := rfl
theorem b2i_nonneg (b : Bool) : 0 ≤ b2i b := by cases b <;> simp
theorem b2i_le_one (b : Bool) : b2i b ≤ 1 := by cases b <;> simp

theorem filter_length_eq_sum {α : Type} (l : List α) (f : α → Bool) :
    ((l.filter f).length : Int) = (l.map fun e => b2i (f e)).sum := by
  induction l with
  | nil => rfl
  | cons a l ih =>
    by_cases h : f a = true
    · simp [List.filter_cons, h, ← ih]; omega
    · have h' : f a = false := by simpa using h
      simp [List.filter_cons, h', ← ih]

theorem sum_nonneg_of_forall (l : List Int) (h : ∀ x ∈ l, 0 ≤ x) : 0 ≤ l.sum := by
  induction l with
  | nil => simp
  | cons a l ih =>
    have h1 := h a (by simp)
    have h2 := ih (fun x hx => h x (by simp [hx]))
    simp; omega

theorem sum_map_eq_zero {α : Type} (l : List α) (g : α → Int) (h : ∀ e ∈ l, g e = 0) : (l.map g).sum = 0 := by
  induction l with
  | nil => rfl
  | cons a l ih =>
    have h1 := h a (by simp)
    have h2 := ih (fun x hx => h x (by simp [hx]))
    simp [h1, h2]

theorem sum_map_le_sum_map {α : Type} (l : List α) (f h : α → Int) (hp : ∀ e ∈ l, f e ≤ h e) :
    (l.map f).sum ≤ (l.map h).sum := by
  induction l with
  | nil => simp
  | cons a l ih =>
    have h1 := hp a (by simp)
    have h2 := ih (fun x hx => hp x (by simp [hx]))
    simp; omega

/-- `Σ f + g a ≤ Σ h` when `f + g ≤ h` pointwise, `f ≤ h` pointwise and `a` is a member -/
theorem sum_map_add_le {α : Type} (l : List α) (f g h : α → Int) (a : α) (ha : a ∈ l)
    (hp : ∀ e ∈ l, f e + g e ≤ h e) (hg : ∀ e ∈ l, 0 ≤ g e) :
    (l.map f).sum + g a ≤ (l.map h).sum := by
  induction l with
  | nil => simp at ha
  | cons b l ih =>
    have hb := hp b (by simp)
    have hgb := hg b (by simp)
    rcases List.mem_cons.1 ha with rfl | ha'
    · have := sum_map_le_sum_map l f h (fun e he => by
        have := hp e (by simp [he]); have := hg e (by simp [he]); omega)
      simp; omega
    · have := ih ha' (fun e he => hp e (by simp [he])) (fun e he => hg e (by simp [he]))
      simp; omega

-- ---------------------------------------------------------------------------------------------
-- counting: a list with ≤ 1 occurrence of each element, all drawn from `ids`, is no longer than `ids`
-- ---------------------------------------------------------------------------------------------

theorem length_le_of_count_le_one (l ids : List Nat) (hc : ∀ x, l.count x ≤ 1) (hm : ∀ x ∈ l, x ∈ ids) :
    l.length ≤ ids.length := by
  induction l generalizing ids with
  | nil => simp
  | cons a l ih =>
    have ha : a ∈ ids := hm a (by simp)
    have hca : l.count a = 0 := by
      have := hc a
      simp at this
      exact this
    have hnot : a ∉ l := by
      intro hmem
      have := List.count_pos_iff.2 hmem
      omega
    have := ih (ids.erase a)
      (fun x => by
        have := hc x
        rw [List.count_cons] at this
        omega)
      (fun x hx => by
        have hne : x ≠ a := fun e => hnot (e ▸ hx)
        exact (List.mem_erase_of_ne hne).2 (hm x (by simp [hx])))
    rw [List.length_erase_of_mem ha] at this
    have : 0 < ids.length := List.length_pos_of_mem ha
    simp
    omega

theorem length_lt_of_count_le_one (l ids : List Nat) (p : Nat) (hp : p ∈ ids) (hpl : p ∉ l)
    (hc : ∀ x, l.count x ≤ 1) (hm : ∀ x ∈ l, x ∈ ids) : l.length < ids.length := by
  have := length_le_of_count_le_one l (ids.erase p) hc (fun x hx => by
    have hne : x ≠ p := fun e => hpl (e ▸ hx)
    exact (List.mem_erase_of_ne hne).2 (hm x hx))
  rw [List.length_erase_of_mem hp] at this
  have : 0 < ids.length := List.length_pos_of_mem hp
  omega

-- ---------------------------------------------------------------------------------------------
-- tasks: lookup and update
-- ---------------------------------------------------------------------------------------------

theorem map_update_of_not_mem (l : List (String × Pc)) (t : String) (pc' : Pc) (h : t ∉ l.map (·.1)) :
    (l.map fun e => if e.1 == t then (t, pc') else e) = l := by
  induction l with
  | nil => rfl
  | cons a l ih =>
    simp only [List.map_cons, List.mem_cons, not_or] at h
    have h1 : ¬ a.1 = t := fun e => h.1 e.symm
    have := ih h.2
    simp only [List.map_cons, this]
    simp [h1]

theorem sum_map_update (l : List (String × Pc)) (t : String) (pc pc' : Pc) (g : Pc → Int)
    (hnd : (l.map (·.1)).Nodup) (h : (l.find? (·.1 == t)).map (·.2) = some pc) :
    ((l.map fun e => if e.1 == t then (t, pc') else e).map fun e => g e.2).sum
      = (l.map fun e => g e.2).sum - g pc + g pc' := by
  induction l with
  | nil => simp at h
  | cons a l ih =>
    rw [List.map_cons, List.nodup_cons] at hnd
    by_cases h1 : a.1 = t
    · have hn : t ∉ l.map (·.1) := h1 ▸ hnd.1
      simp [List.find?_cons, h1] at h
      have e1 := map_update_of_not_mem l t pc' hn
      simp only [List.map_cons, e1]
      simp [h1, ← h]
      omega
    · have h1' : (a.1 == t) = false := by simpa using h1
      simp [List.find?_cons, h1'] at h
      have := ih hnd.2 (by simpa using h)
      simp only [List.map_cons, List.sum_cons, this]
      simp [h1]
      omega

theorem names_map_update (l : List (String × Pc)) (t : String) (pc' : Pc) :
    (l.map fun e => if e.1 == t then (t, pc') else e).map (·.1) = l.map (·.1) := by
  rw [List.map_map]
  apply List.map_congr_left
  intro a _
  by_cases h1 : a.1 = t
  · simp [h1]
  · simp [h1]

theorem mem_map_update (l : List (String × Pc)) (t : String) (pc' : Pc) (e : String × Pc)
    (he : e ∈ l.map fun e => if e.1 == t then (t, pc') else e) : e = (t, pc') ∨ e ∈ l := by
  rcases List.mem_map.1 he with ⟨a, ha, rfl⟩
  by_cases h1 : a.1 = t
  · simp [h1]
  · have h1' : (a.1 == t) = false := by simpa using h1
    simp [h1', ha]

theorem RpqSt.task?_mem (s : RpqSt) (t : String) (pc : Pc) (h : s.task? t = some pc) : (t, pc) ∈ s.tasks := by
  unfold RpqSt.task? at h
  cases hf : s.tasks.find? (·.1 == t) with
  | none => simp [hf] at h
  | some e =>
    simp [hf] at h
    have h1 := List.find?_some hf
    have h2 := List.mem_of_find?_eq_some hf
    simp at h1
    obtain ⟨a, b⟩ := e
    simp at h h1
    subst h h1
    exact h2

@[simp] theorem RpqSt.setTask_tasks (s : RpqSt) (t : String) (pc : Pc) :
    (s.setTask t pc).tasks = s.tasks.map fun e => if e.1 == t then (t, pc) else e := rfl
@[simp] theorem RpqSt.setTask_pipes (s : RpqSt) (t : String) (pc : Pc) : (s.setTask t pc).pipes = s.pipes := rfl
@[simp] theorem RpqSt.setTask_ready (s : RpqSt) (t : String) (pc : Pc) : (s.setTask t pc).ready = s.ready := rfl
@[simp] theorem RpqSt.setTask_readyCap (s : RpqSt) (t : String) (pc : Pc) : (s.setTask t pc).readyCap = s.readyCap := rfl
@[simp] theorem RpqSt.setTask_accepted (s : RpqSt) (t : String) (pc : Pc) : (s.setTask t pc).accepted = s.accepted := rfl
@[simp] theorem RpqSt.setTask_takenLog (s : RpqSt) (t : String) (pc : Pc) : (s.setTask t pc).takenLog = s.takenLog := rfl
@[simp] theorem RpqSt.setTask_pipe? (s : RpqSt) (t : String) (pc : Pc) (p : Nat) : (s.setTask t pc).pipe? p = s.pipe? p := rfl

@[simp] theorem RpqSt.setPipe_tasks (s : RpqSt) (ps : PipeSt) : (s.setPipe ps).tasks = s.tasks := rfl
@[simp] theorem RpqSt.setPipe_pipes (s : RpqSt) (ps : PipeSt) :
    (s.setPipe ps).pipes = s.pipes.map fun q => if q.id == ps.id then ps else q := rfl
@[simp] theorem RpqSt.setPipe_ready (s : RpqSt) (ps : PipeSt) : (s.setPipe ps).ready = s.ready := rfl
@[simp] theorem RpqSt.setPipe_readyCap (s : RpqSt) (ps : PipeSt) : (s.setPipe ps).readyCap = s.readyCap := rfl
@[simp] theorem RpqSt.setPipe_accepted (s : RpqSt) (ps : PipeSt) : (s.setPipe ps).accepted = s.accepted := rfl
@[simp] theorem RpqSt.setPipe_takenLog (s : RpqSt) (ps : PipeSt) : (s.setPipe ps).takenLog = s.takenLog := rfl

theorem RpqSt.pushReady_eq (s s' : RpqSt) (p : Nat) (h : s.pushReady p = some s') :
    s' = { s with ready := s.ready ++ [p] } ∧ s.ready.length < s.readyCap := by
  unfold RpqSt.pushReady at h
  split at h
  · simp at h; exact ⟨h.symm, by assumption⟩
  · simp at h

theorem RpqSt.pushReady_getD (s : RpqSt) (p : Nat) :
    (s.pushReady p).getD s = s ∨ (s.pushReady p).getD s = { s with ready := s.ready ++ [p] } := by
  unfold RpqSt.pushReady
  split <;> simp

@[simp] theorem RpqSt.pushReady_getD_pipes (s : RpqSt) (p : Nat) : ((s.pushReady p).getD s).pipes = s.pipes := by
  rcases s.pushReady_getD p with h | h <;> rw [h]
@[simp] theorem RpqSt.pushReady_getD_tasks (s : RpqSt) (p : Nat) : ((s.pushReady p).getD s).tasks = s.tasks := by
  rcases s.pushReady_getD p with h | h <;> rw [h]
@[simp] theorem RpqSt.pushReady_getD_readyCap (s : RpqSt) (p : Nat) : ((s.pushReady p).getD s).readyCap = s.readyCap := by
  rcases s.pushReady_getD p with h | h <;> rw [h]
@[simp] theorem RpqSt.pushReady_getD_accepted (s : RpqSt) (p : Nat) : ((s.pushReady p).getD s).accepted = s.accepted := by
  rcases s.pushReady_getD p with h | h <;> rw [h]
@[simp] theorem RpqSt.pushReady_getD_takenLog (s : RpqSt) (p : Nat) : ((s.pushReady p).getD s).takenLog = s.takenLog := by
  rcases s.pushReady_getD p with h | h <;> rw [h]

-- ---------------------------------------------------------------------------------------------
-- pipes: lookup and update
-- ---------------------------------------------------------------------------------------------

theorem RpqSt.pipe?_some (s : RpqSt) (p : Nat) (ps : PipeSt) (h : s.pipe? p = some ps) : ps ∈ s.pipes ∧ ps.id = p := by
  unfold RpqSt.pipe? at h
  have h1 := List.find?_some h
  have h2 := List.mem_of_find?_eq_some h
  simp at h1
  exact ⟨h2, h1⟩

theorem find?_id_of_mem (l : List PipeSt) (q : PipeSt) (hnd : (l.map (·.id)).Nodup) (hq : q ∈ l) :
    l.find? (·.id == q.id) = some q := by
  induction l with
  | nil => simp at hq
  | cons a l ih =>
    rw [List.map_cons, List.nodup_cons] at hnd
    rcases List.mem_cons.1 hq with rfl | hq'
    · simp
    · have hne : a.id ≠ q.id := by
        intro e
        apply hnd.1
        rw [e]
        exact List.mem_map.2 ⟨q, hq', rfl⟩
      have : (a.id == q.id) = false := by simpa using hne
      simp [List.find?_cons, this, ih hnd.2 hq']

theorem RpqSt.pipe?_of_mem (s : RpqSt) (q : PipeSt) (hnd : (s.pipes.map (·.id)).Nodup) (hq : q ∈ s.pipes) :
    s.pipe? q.id = some q := find?_id_of_mem s.pipes q hnd hq

theorem RpqSt.pipe?_isSome_mem_ids (s : RpqSt) (p : Nat) (h : (s.pipe? p).isSome) : p ∈ s.pipes.map (·.id) := by
  cases hps : s.pipe? p with
  | none => simp [hps] at h
  | some ps =>
    have := s.pipe?_some p ps hps
    exact List.mem_map.2 ⟨ps, this.1, this.2⟩

theorem find?_map_id (l : List PipeSt) (F : PipeSt → PipeSt) (hF : ∀ q, (F q).id = q.id) (p : Nat) :
    (l.map F).find? (·.id == p) = (l.find? (·.id == p)).map F := by
  induction l with
  | nil => rfl
  | cons a l ih =>
    by_cases h : a.id = p
    · simp [List.find?_cons, hF, h]
    · have : (a.id == p) = false := by simpa using h
      simp [List.find?_cons, hF, this, ih]

theorem RpqSt.pipe?_of_pipes_map (s s' : RpqSt) (F : PipeSt → PipeSt) (hF : ∀ q, (F q).id = q.id)
    (hp : s'.pipes = s.pipes.map F) (p : Nat) : s'.pipe? p = (s.pipe? p).map F := by
  unfold RpqSt.pipe?
  rw [hp]
  exact find?_map_id s.pipes F hF p

theorem RpqSt.setPipe_pipe? (s : RpqSt) (ps' : PipeSt) (p : Nat) :
    (s.setPipe ps').pipe? p = (s.pipe? p).map fun q => if q.id == ps'.id then ps' else q := by
  apply RpqSt.pipe?_of_pipes_map s (s.setPipe ps') (fun q => if q.id == ps'.id then ps' else q)
  · intro q
    by_cases h : q.id = ps'.id
    · simp [h]
    · have : (q.id == ps'.id) = false := by simpa using h
      simp [this]
  · rfl

-- ---------------------------------------------------------------------------------------------
-- check-then-wait on Notify
-- ---------------------------------------------------------------------------------------------

namespace WaitSt

/-- before the signal: the waiter is at a known pc and, once past its check, is registered -/
def Pre (w : WaitSt) : Prop := (w.pc = 0 ∨ w.pc = 1 ∨ w.pc = 2) ∧ (w.pc = 1 → w.registered = true)

/-- after the signal: the condition is true and the waiter cannot be stuck -/
def Good (w : WaitSt) : Prop := w.cond = true ∧ (w.pc = 0 ∨ (w.pc = 1 ∧ w.notified = true) ∨ w.pc = 2)

theorem pre_init : Pre {} := by simp [Pre]

theorem pre_step (w : WaitSt) (h : Pre w) : Pre w.stepRegisterFirst.1 := by
  obtain ⟨c, pc, r, n⟩ := w
  obtain ⟨h1, h2⟩ := h
  simp only at h1 h2
  rcases h1 with rfl | rfl | rfl
  · cases c <;> simp [Pre, stepRegisterFirst]
  · cases n <;> cases c <;> simp_all [Pre, stepRegisterFirst]
  · simp [Pre, stepRegisterFirst]

theorem good_signal (w : WaitSt) (h : Pre w) : Good w.signal := by
  obtain ⟨c, pc, r, n⟩ := w
  obtain ⟨h1, h2⟩ := h
  simp only at h1 h2
  rcases h1 with rfl | rfl | rfl <;> simp_all [Good, signal]

theorem good_signal' (w : WaitSt) (h : Good w) : Good w.signal := by
  obtain ⟨c, pc, r, n⟩ := w
  obtain ⟨h1, h2⟩ := h
  simp only at h1 h2
  rcases h2 with rfl | ⟨rfl, rfl⟩ | rfl <;> simp_all [Good, signal]

theorem good_step (w : WaitSt) (h : Good w) : Good w.stepRegisterFirst.1 ∧ w.stepRegisterFirst.1.pc = 2 := by
  obtain ⟨c, pc, r, n⟩ := w
  obtain ⟨h1, h2⟩ := h
  simp only at h1 h2
  subst h1
  rcases h2 with rfl | ⟨rfl, rfl⟩ | rfl <;> simp [Good, stepRegisterFirst]

end WaitSt

end Rzmq
