import RzmqModel.Model.Dealer
/-!
Helper lemmas for M13 `Dealer`.  Property theorems are in Props/C01.lean and Props/C14.lean.
-/
namespace Rzmq

def goodDealer : DealerCfg := { queuesBehindBacklog := true, requeuesAtFront := true }

/-- the line is the acceptance log; the counter counts what is pending or in the processor's hand; the queue is bounded
(SNDHWM in the queue plus the one message in the processor's hand) -/
structure Dealer.Inv (d : Dealer) : Prop where
  line : d.line = d.accepted
  count : d.backlog = d.pending.length + d.hand.toList.length
  bound : d.pending.length + d.hand.toList.length ≤ max d.hwm 1 + 1
  handLe : d.hand.toList.length ≤ 1

theorem Dealer.inv_init (cap hwm : Nat) : ({ cap := cap, hwm := hwm } : Dealer).Inv :=
  ⟨by simp [Dealer.line], by simp, by simp, by simp⟩

theorem Dealer.hand_toList_length (d : Dealer) : d.hand.toList.length ≤ 1 := by
  cases d.hand <;> simp

theorem Dealer.queueOrRefuse_inv (d : Dealer) (m : Nat) (h : d.Inv) : (d.queueOrRefuse m).Inv := by
  unfold Dealer.queueOrRefuse
  split
  · rename_i hlt
    refine ⟨?_, ?_, ?_, ?_⟩
    · have := h.line
      simp only [Dealer.line] at this ⊢
      rw [← this]; simp [List.append_assoc]
    · simp [h.count]; omega
    · have := d.hand_toList_length
      simp; omega
    · exact h.handLe
  · exact ⟨h.line, h.count, h.bound, h.handLe⟩

theorem Dealer.step_inv (d : Dealer) (e : DealerEv) (h : d.Inv) : (Dealer.step goodDealer d e).Inv := by
  cases e with
  | send m =>
    simp only [Dealer.step, goodDealer, Bool.true_and]
    split
    · exact Dealer.queueOrRefuse_inv d m h
    · rename_i hb
      split
      · -- straight into the pipe: the counter is 0, so nothing is pending and the processor's hand is empty
        have hz : d.backlog = 0 := by simpa using hb
        have hc := h.count
        rw [hz] at hc
        have hp : d.pending = [] := List.eq_nil_of_length_eq_zero (by omega)
        have hh : d.hand.toList = [] := List.eq_nil_of_length_eq_zero (by omega)
        refine ⟨?_, ?_, ?_, ?_⟩
        · have := h.line
          simp only [Dealer.line, hp, hh, List.append_nil] at this ⊢
          rw [← this]; simp [List.append_assoc]
        · simp [hz, hp, hh]
        · simp [hp, hh]
        · exact h.handLe
      · exact Dealer.queueOrRefuse_inv d m h
  | procPop =>
    simp only [Dealer.step]
    split
    · rename_i m rest hh hp
      refine ⟨?_, ?_, ?_, ?_⟩
      · have := h.line
        simp only [Dealer.line, hh, hp, Option.toList_none, List.append_nil] at this
        simp only [Dealer.line, Option.toList_some]
        rw [← this]; simp [List.append_assoc]
      · have := h.count
        simp [hh, hp] at this ⊢
        omega
      · have := h.bound
        simp [hh, hp] at this ⊢
        omega
      · simp
    · exact h
  | procRoute =>
    simp only [Dealer.step, goodDealer]
    split
    · exact h
    · rename_i m hh
      split
      · refine ⟨?_, ?_, ?_, ?_⟩
        · have := h.line
          simp only [Dealer.line, hh, Option.toList_some] at this
          simp only [Dealer.line, Option.toList_none, List.append_nil]
          rw [← this]; simp [List.append_assoc]
        · have := h.count
          simp [hh] at this ⊢
          omega
        · have := h.bound
          simp [hh] at this ⊢
          omega
        · simp
      · simp only [if_true]
        refine ⟨?_, ?_, ?_, ?_⟩
        · have := h.line
          simp only [Dealer.line, hh, Option.toList_some] at this
          simp only [Dealer.line, Option.toList_none, List.append_nil]
          rw [← this]; simp [List.append_assoc]
        · have := h.count
          simp [hh] at this ⊢
          omega
        · have := h.bound
          simp [hh] at this ⊢
          omega
        · simp
  | sessionTake =>
    simp only [Dealer.step]
    split
    · exact h
    · rename_i m rest hp
      refine ⟨?_, h.count, h.bound, h.handLe⟩
      have := h.line
      simp only [Dealer.line, hp] at this ⊢
      rw [← this]; simp [List.append_assoc]

theorem Dealer.run_inv (d : Dealer) (evs : List DealerEv) (h : d.Inv) : (Dealer.run goodDealer d evs).Inv := by
  induction evs generalizing d with
  | nil => exact h
  | cons e es ih => exact ih _ (Dealer.step_inv d e h)

/-- the wire (what the session has taken) is a prefix of the acceptance log -/
theorem Dealer.delivered_prefix (d : Dealer) (h : d.Inv) : d.delivered <+: d.accepted := by
  rw [← h.line]
  simp only [Dealer.line, List.append_assoc]
  exact List.prefix_append _ _

/-- a refused send changes nothing but the refusal log -/
theorem Dealer.refused_send_changes_nothing (c : DealerCfg) (d : Dealer) (m : Nat)
    (h : (Dealer.step c d (.send m)).accepted = d.accepted) :
    Dealer.step c d (.send m) = { d with refused := d.refused ++ [m] } := by
  simp only [Dealer.step] at h ⊢
  split
  · rename_i hb
    simp only [hb, if_true] at h
    unfold Dealer.queueOrRefuse at h ⊢
    split
    · rename_i hlt; simp [hlt] at h
    · rfl
  · rename_i hb
    simp only [hb] at h
    split
    · rename_i hlt; simp [hlt] at h
    · rename_i hlt
      simp only [hlt, if_false] at h
      unfold Dealer.queueOrRefuse at h ⊢
      split
      · rename_i hq; simp [hq] at h
      · rfl

theorem Dealer.step_hwm (c : DealerCfg) (d : Dealer) (e : DealerEv) : (Dealer.step c d e).hwm = d.hwm := by
  cases e with
  | send m =>
    simp only [Dealer.step, Dealer.queueOrRefuse]
    split
    · split <;> rfl
    · split
      · rfl
      · split <;> rfl
  | procPop => simp only [Dealer.step]; split <;> rfl
  | procRoute =>
    simp only [Dealer.step]
    split
    · rfl
    · split
      · rfl
      · split <;> rfl
  | sessionTake => simp only [Dealer.step]; split <;> rfl

theorem Dealer.run_hwm (c : DealerCfg) (d : Dealer) (evs : List DealerEv) : (Dealer.run c d evs).hwm = d.hwm := by
  induction evs generalizing d with
  | nil => rfl
  | cons e es ih =>
    simp only [Dealer.run, List.foldl_cons] at ih ⊢
    rw [ih, Dealer.step_hwm]

theorem Dealer.step_cap (c : DealerCfg) (d : Dealer) (e : DealerEv) : (Dealer.step c d e).cap = d.cap := by
  cases e with
  | send m =>
    simp only [Dealer.step, Dealer.queueOrRefuse]
    split
    · split <;> rfl
    · split
      · rfl
      · split <;> rfl
  | procPop => simp only [Dealer.step]; split <;> rfl
  | procRoute =>
    simp only [Dealer.step]
    split
    · rfl
    · split
      · rfl
      · split <;> rfl
  | sessionTake => simp only [Dealer.step]; split <;> rfl

theorem Dealer.run_cap (c : DealerCfg) (d : Dealer) (evs : List DealerEv) : (Dealer.run c d evs).cap = d.cap := by
  induction evs generalizing d with
  | nil => rfl
  | cons e es ih =>
    simp only [Dealer.run, List.foldl_cons] at ih ⊢
    rw [ih, Dealer.step_cap]

/-- a send is refused only when the pending queue is at SNDHWM and the message could not go to the pipe either (the pipe is
full, or older messages are pending and must go first) -/
theorem Dealer.refusal_only_when_full (c : DealerCfg) (d : Dealer) (m : Nat)
    (h : (Dealer.step c d (.send m)).accepted = d.accepted) :
    max d.hwm 1 ≤ d.pending.length ∧ (max d.cap 1 ≤ d.pipe.length ∨ 0 < d.backlog) := by
  simp only [Dealer.step] at h
  split at h
  · rename_i hb
    unfold Dealer.queueOrRefuse at h
    split at h
    · simp at h
    · rename_i hq
      simp only [Bool.and_eq_true, decide_eq_true_eq] at hb
      exact ⟨by omega, Or.inr hb.2⟩
  · split at h
    · simp at h
    · rename_i hp
      unfold Dealer.queueOrRefuse at h
      split at h
      · simp at h
      · rename_i hq; exact ⟨by omega, Or.inl (by omega)⟩

/-! ## nothing accepted is stranded: from every reachable state the processor and the session can drain everything -/

def DealerEv.isSend : DealerEv → Bool
  | .send _ => true
  | _ => false

def Dealer.todo (d : Dealer) : Nat := 3 * d.pending.length + 2 * d.hand.toList.length + d.pipe.length

theorem Dealer.drain_exists (n : Nat) : ∀ d : Dealer, d.Inv → d.todo = n →
    ∃ evs : List DealerEv, (∀ e ∈ evs, e.isSend = false) ∧ evs.length = n
      ∧ (Dealer.run goodDealer d evs).delivered = d.accepted
      ∧ (Dealer.run goodDealer d evs).accepted = d.accepted := by
  induction n with
  | zero =>
    intro d h hn
    refine ⟨[], by simp, rfl, ?_, rfl⟩
    simp only [Dealer.todo] at hn
    have hp : d.pending = [] := List.eq_nil_of_length_eq_zero (by omega)
    have hh : d.hand.toList = [] := List.eq_nil_of_length_eq_zero (by omega)
    have hq : d.pipe = [] := List.eq_nil_of_length_eq_zero (by omega)
    have := h.line
    simp only [Dealer.line, hp, hh, hq, List.append_nil] at this
    simpa [Dealer.run] using this
  | succ n ih =>
    intro d h hn
    have key : ∀ e : DealerEv, e.isSend = false → (Dealer.step goodDealer d e).todo = n →
        (Dealer.step goodDealer d e).accepted = d.accepted →
        ∃ evs : List DealerEv, (∀ e ∈ evs, e.isSend = false) ∧ evs.length = n + 1
          ∧ (Dealer.run goodDealer d evs).delivered = d.accepted
          ∧ (Dealer.run goodDealer d evs).accepted = d.accepted := by
      intro e he ht ha
      obtain ⟨evs, h1, h2, h3, h4⟩ := ih _ (Dealer.step_inv d e h) ht
      refine ⟨e :: evs, ?_, by simp [h2], ?_, ?_⟩
      · intro x hx
        rcases List.mem_cons.mp hx with rfl | hx
        · exact he
        · exact h1 x hx
      · simp only [Dealer.run, List.foldl_cons] at h3 ⊢; rw [h3, ha]
      · simp only [Dealer.run, List.foldl_cons] at h4 ⊢; rw [h4, ha]
    simp only [Dealer.todo] at hn
    cases hq : d.pipe with
    | cons m rest =>
      apply key .sessionTake rfl
      · simp only [Dealer.step, hq, Dealer.todo]; simp only [hq, List.length_cons] at hn; omega
      · simp only [Dealer.step, hq]
    | nil =>
      cases hh : d.hand with
      | some m =>
        apply key .procRoute rfl
        · simp only [Dealer.step, hh, hq, List.length_nil, Dealer.todo]
          have : 0 < max d.cap 1 := by omega
          simp only [this, if_true]
          simp only [hh, hq, Option.toList_some, List.length_singleton, List.length_nil] at hn
          simp; omega
        · simp only [Dealer.step, hh, hq, List.length_nil]
          have : 0 < max d.cap 1 := by omega
          simp only [this, if_true]
      | none =>
        cases hp : d.pending with
        | nil => simp [hq, hh, hp] at hn
        | cons m rest =>
          apply key .procPop rfl
          · simp only [Dealer.step, hh, hp, Dealer.todo]
            simp only [hh, hp, hq, List.length_cons, Option.toList_none, List.length_nil] at hn
            simp [hq]; omega
          · simp only [Dealer.step, hh, hp]

end Rzmq
