import RzmqModel.Model.Tracker
/-!
Helper lemmas for the operation table (M11).  Property theorems live in Props/C20.lean.
-/
namespace Rzmq

-- ---------------------------------------------------------------------------------------------
-- lists
-- ---------------------------------------------------------------------------------------------

/-- the element at index `i` splits the list; `set i` and `eraseIdx i` in terms of the split -/
theorem getElem?_split {α : Type} {l : List α} {i : Nat} {a : α} (h : l[i]? = some a) :
    ∃ l1 l2, l = l1 ++ a :: l2 ∧ (∀ x, l.set i x = l1 ++ x :: l2) ∧ l.eraseIdx i = l1 ++ l2 := by
  induction l generalizing i with
  | nil => simp at h
  | cons b l ih =>
    cases i with
    | zero =>
      simp at h
      subst h
      exact ⟨[], l, by simp, by simp, by simp⟩
    | succ i =>
      simp at h
      obtain ⟨l1, l2, h1, h2, h3⟩ := ih h
      refine ⟨b :: l1, l2, by simp [h1], ?_, ?_⟩
      · intro x; simp [h2 x]
      · simp [h3]

theorem foldl_set_none_getElem? {α : Type} (keys : List Nat) (l : List (Option α)) (j : Nat) (e : α)
    (h : (keys.foldl (fun s k => s.set k none) l)[j]? = some (some e)) : l[j]? = some (some e) := by
  induction keys generalizing l with
  | nil => simpa using h
  | cons k ks ih =>
    have h1 := ih (l.set k none) h
    rw [List.getElem?_set] at h1
    split at h1
    · split at h1 <;> simp at h1
    · exact h1

-- ---------------------------------------------------------------------------------------------
-- the table's operations, one at a time
-- ---------------------------------------------------------------------------------------------

theorem Tracker.slabGet_eq_some {t : Tracker} {k : Nat} {e : TOp} :
    t.slabGet k = some e ↔ t.slab[k]? = some (some e) := by
  unfold Tracker.slabGet
  cases h : t.slab[k]? with
  | none => simp
  | some o => cases o <;> simp

theorem Tracker.insert_notif (t : Tracker) (op : TOp) : (t.insert op).1.notif = t.notif := by
  unfold Tracker.insert; split <;> rfl

/-- an entry in the table after `insert` is the new one (under the returned key) or was there before -/
theorem Tracker.insert_slabGet {t : Tracker} {op : TOp} {j : Nat} {e : TOp}
    (h : (t.insert op).1.slabGet j = some e) : j = (t.insert op).2 ∨ t.slabGet j = some e := by
  rw [Tracker.slabGet_eq_some] at h ⊢
  unfold Tracker.insert at h ⊢
  split at h
  · rename_i k rest hf
    simp only
    simp only [List.getElem?_set] at h
    split at h
    · left; omega
    · right; exact h
  · rename_i hf
    simp only
    simp only [List.getElem?_append] at h
    split at h
    · right; exact h
    · left
      rename_i hlt
      cases hj : j - t.slab.length with
      | zero => omega
      | succ n => rw [hj] at h; simp at h

/-- whatever the shape: an entry in the table after `closeFd` sits under a key that had an entry before -/
theorem Tracker.closeFd_slabGet {shape : CloseShape} {t : Tracker} {fd : Int} {j : Nat} {e : TOp}
    (h : (t.closeFd shape fd).1.slabGet j = some e) : ∃ e0, t.slabGet j = some e0 := by
  rw [Tracker.slabGet_eq_some] at h
  simp only [Tracker.closeFd] at h
  have h1 := foldl_set_none_getElem? _ _ _ _ h
  simp only [List.getElem?_map] at h1
  cases hj : t.slab[j]? with
  | none => simp [hj] at h1
  | some o =>
    cases o with
    | none => simp [hj] at h1
    | some e0 => exact ⟨e0, Tracker.slabGet_eq_some.2 hj⟩

theorem Tracker.closeFd_notif_mem {shape : CloseShape} {t : Tracker} {fd : Int} {p : Nat × TOp}
    (h : p ∈ (t.closeFd shape fd).1.notif) : ∃ p0 ∈ t.notif, p0.1 = p.1 := by
  simp only [Tracker.closeFd, List.mem_filter, List.mem_map] at h
  obtain ⟨⟨p0, hp0, rfl⟩, _⟩ := h
  exact ⟨p0, hp0, rfl⟩

-- ---------------------------------------------------------------------------------------------
-- `closeFd .keepAll` for a real descriptor
-- ---------------------------------------------------------------------------------------------

/-- the re-tagging `closeFd .keepAll fd` applies to every entry -/
def retag (fd : Int) (o : TOp) : TOp := if o.fd == fd then { o with fd := orphanFd } else o

theorem retag_fd_ne {fd : Int} (hfd : fd ≠ orphanFd) (o : TOp) : (retag fd o).fd ≠ fd := by
  unfold retag
  split
  · exact fun h => hfd h.symm
  · rename_i h; simpa using h

theorem retag_kind (fd : Int) (o : TOp) : (retag fd o).kind = o.kind := by
  unfold retag; split <;> rfl

theorem retag_fd (fd : Int) (o : TOp) : (retag fd o).fd = o.fd ∨ (retag fd o).fd = orphanFd := by
  unfold retag; split <;> simp

/-- `Tracker.closeFd` with the re-tagging as a parameter -/
def Tracker.closeFdWith (mark : TOp → TOp) (t : Tracker) (fd : Int) : Tracker × List TOp :=
  let slab1 := t.slab.map (Option.map mark)
  let notif1 := t.notif.map fun p => (p.1, mark p.2)
  let keys := (List.range slab1.length).filter fun k => match (slab1[k]?).join with
    | some o => o.fd == fd
    | none => false
  let removedSlab := keys.filterMap fun k => (slab1[k]?).join
  ({ slab := keys.foldl (fun s k => s.set k none) slab1,
     free := keys.foldl (fun f k => k :: f) t.free,
     notif := notif1.filter (fun p => p.2.fd != fd) },
   removedSlab ++ (notif1.filter (fun p => p.2.fd == fd)).map (·.2))

theorem Tracker.closeFd_eq_with (shape : CloseShape) (t : Tracker) (fd : Int) :
    t.closeFd shape fd
      = t.closeFdWith (fun o => if o.fd == fd && shape.keeps o.kind then { o with fd := orphanFd } else o) fd := rfl

/-- with a real descriptor, `closeFd .keepAll` is the re-tagging and nothing else -/
theorem Tracker.closeFd_keepAll {t : Tracker} {fd : Int} (hfd : fd ≠ orphanFd) :
    t.closeFd .keepAll fd
      = ({ slab := t.slab.map (Option.map (retag fd)), free := t.free,
           notif := t.notif.map fun p => (p.1, retag fd p.2) }, []) := by
  have hmark : (fun o : TOp => if o.fd == fd && CloseShape.keepAll.keeps o.kind
      then { o with fd := orphanFd } else o) = retag fd := by
    funext o; simp [retag, CloseShape.keeps]
  have hkeys : ((List.range (t.slab.map (Option.map (retag fd))).length).filter fun k =>
      match ((t.slab.map (Option.map (retag fd)))[k]?).join with
      | some o => o.fd == fd
      | none => false) = [] := by
    rw [List.filter_eq_nil_iff]
    intro k _
    simp only [List.getElem?_map]
    cases t.slab[k]? with
    | none => simp
    | some o =>
      cases o with
      | none => simp
      | some e => simpa using retag_fd_ne hfd e
  have hn1 : ((t.notif.map fun p => (p.1, retag fd p.2)).filter fun p => p.2.fd != fd)
      = t.notif.map fun p => (p.1, retag fd p.2) := by
    rw [List.filter_eq_self]
    intro p hp
    simp only [List.mem_map] at hp
    obtain ⟨p0, _, rfl⟩ := hp
    simpa using retag_fd_ne hfd p0.2
  have hn2 : ((t.notif.map fun p => (p.1, retag fd p.2)).filter fun p => p.2.fd == fd) = [] := by
    rw [List.filter_eq_nil_iff]
    intro p hp
    simp only [List.mem_map] at hp
    obtain ⟨p0, _, rfl⟩ := hp
    simpa using retag_fd_ne hfd p0.2
  rw [Tracker.closeFd_eq_with, hmark]
  unfold Tracker.closeFdWith
  dsimp only
  rw [hkeys, hn1, hn2]
  rfl

/-- nothing is dropped when the CloseFd completion of a real descriptor is processed -/
theorem Tracker.closeFd_keepAll_drops_nothing (t : Tracker) {fd : Int} (hfd : fd ≠ orphanFd) :
    (t.closeFd .keepAll fd).2 = [] := by
  rw [Tracker.closeFd_keepAll hfd]

theorem Tracker.closeFd_keepAll_not_named (t : Tracker) {fd : Int} (hfd : fd ≠ orphanFd) :
    (∀ k e, (t.closeFd .keepAll fd).1.slabGet k = some e → e.fd ≠ fd)
    ∧ (∀ p ∈ (t.closeFd .keepAll fd).1.notif, p.2.fd ≠ fd) := by
  rw [Tracker.closeFd_keepAll hfd]
  constructor
  · intro k e h
    rw [Tracker.slabGet_eq_some] at h
    simp only [List.getElem?_map] at h
    cases hk : t.slab[k]? with
    | none => simp [hk] at h
    | some o =>
      cases o with
      | none => simp [hk] at h
      | some e0 =>
        simp [hk] at h
        subst h
        exact retag_fd_ne hfd e0
  · intro p hp
    simp only [List.mem_map] at hp
    obtain ⟨p0, _, rfl⟩ := hp
    exact retag_fd_ne hfd p0.2

-- ---------------------------------------------------------------------------------------------
-- the vacant keys
-- ---------------------------------------------------------------------------------------------

/-- the list of vacant keys is exactly the set of vacant slots, each once -/
structure Tracker.FreeOK (t : Tracker) : Prop where
  nodup : t.free.Nodup
  vacant : ∀ k ∈ t.free, t.slab[k]? = some none
  listed : ∀ k, t.slab[k]? = some none → k ∈ t.free

theorem Tracker.freeOK_init : Tracker.FreeOK {} := by
  constructor <;> simp

/-- the key `insert` hands out was vacant -/
theorem Tracker.FreeOK.insert_key_vacant {t : Tracker} (h : t.FreeOK) (op : TOp) :
    t.slabGet (t.insert op).2 = none := by
  unfold Tracker.insert Tracker.slabGet
  split
  · rename_i k rest hf
    have := h.vacant k (by rw [hf]; simp)
    simp [this]
  · simp

theorem Tracker.FreeOK.insert_slabGet_key {t : Tracker} (h : t.FreeOK) (op : TOp) :
    (t.insert op).1.slabGet (t.insert op).2 = some op := by
  rw [Tracker.slabGet_eq_some]
  unfold Tracker.insert
  split
  · rename_i k rest hf
    have := h.vacant k (by rw [hf]; simp)
    have hlt : k < t.slab.length := by
      rcases Nat.lt_or_ge k t.slab.length with h1 | h1
      · exact h1
      · rw [List.getElem?_eq_none h1] at this; cases this
    simp [hlt]
  · simp

theorem Tracker.insert_slabGet_other {t : Tracker} {op : TOp} {j : Nat} (hj : j ≠ (t.insert op).2) :
    (t.insert op).1.slabGet j = t.slabGet j := by
  unfold Tracker.insert at hj ⊢
  unfold Tracker.slabGet
  split
  · rename_i k rest hf
    simp only [hf] at hj
    simp only [List.getElem?_set]
    rw [if_neg (fun h => hj h.symm)]
  · rename_i hf
    simp only [hf] at hj
    simp only [List.getElem?_append]
    split
    · rfl
    · rename_i hge
      have h1 : t.slab[j]? = none := List.getElem?_eq_none (by omega)
      have h2 : [some op][j - t.slab.length]? = none := List.getElem?_eq_none (by simp; omega)
      rw [h1, h2]

theorem Tracker.FreeOK.insert {t : Tracker} (h : t.FreeOK) (op : TOp) : (t.insert op).1.FreeOK := by
  unfold Tracker.insert
  split
  · rename_i k rest hf
    have hnd := h.nodup
    rw [hf] at hnd
    have hk : k ∉ rest := (List.nodup_cons.1 hnd).1
    constructor
    · exact (List.nodup_cons.1 hnd).2
    · intro j hj
      have hne : k ≠ j := by rintro rfl; exact hk hj
      simp only [List.getElem?_set, if_neg hne]
      exact h.vacant j (by rw [hf]; simp [hj])
    · intro j hj
      simp only [List.getElem?_set] at hj
      split at hj
      · split at hj <;> simp at hj
      · rename_i hne
        have := h.listed j hj
        rw [hf] at this
        simp only [List.mem_cons] at this
        rcases this with rfl | h1
        · exact absurd rfl hne
        · exact h1
  · rename_i hf
    constructor
    · simp [hf]
    · intro j hj; simp [hf] at hj
    · intro j hj
      simp only [List.getElem?_append] at hj
      split at hj
      · exact h.listed j hj
      · cases hjj : j - t.slab.length with
        | zero => rw [hjj] at hj; simp at hj
        | succ n => rw [hjj] at hj; simp at hj

theorem Tracker.slabRemove_slabGet_key (t : Tracker) (k : Nat) : (t.slabRemove k).slabGet k = none := by
  unfold Tracker.slabRemove Tracker.slabGet
  simp only [List.getElem?_set, if_true]
  split <;> rfl

theorem Tracker.slabRemove_slabGet_other (t : Tracker) {k j : Nat} (hj : j ≠ k) :
    (t.slabRemove k).slabGet j = t.slabGet j := by
  unfold Tracker.slabRemove Tracker.slabGet
  simp only [List.getElem?_set]
  rw [if_neg (fun h => hj h.symm)]

theorem Tracker.FreeOK.slabRemove {t : Tracker} (h : t.FreeOK) {k : Nat} {e : TOp} (hk : t.slabGet k = some e) :
    (t.slabRemove k).FreeOK := by
  rw [Tracker.slabGet_eq_some] at hk
  have hlt : k < t.slab.length := by
    rcases Nat.lt_or_ge k t.slab.length with h1 | h1
    · exact h1
    · rw [List.getElem?_eq_none h1] at hk; cases hk
  unfold Tracker.slabRemove
  constructor
  · refine List.nodup_cons.2 ⟨?_, h.nodup⟩
    intro hm
    have := h.vacant k hm
    rw [hk] at this; cases this
  · intro j hj
    simp only [List.getElem?_set]
    split
    · rename_i hkj; subst hkj; simp
    · rename_i hne
      simp only [List.mem_cons] at hj
      rcases hj with rfl | hj
      · exact absurd rfl hne
      · exact h.vacant j hj
  · intro j hj
    simp only [List.getElem?_set] at hj
    split at hj
    · rename_i hkj; subst hkj; simp
    · exact List.mem_cons_of_mem _ (h.listed j hj)

theorem Tracker.FreeOK.of_eq {t t' : Tracker} (h : t.FreeOK) (hs : t'.slab = t.slab) (hf : t'.free = t.free) :
    t'.FreeOK := by
  constructor
  · rw [hf]; exact h.nodup
  · intro k hk; rw [hs]; rw [hf] at hk; exact h.vacant k hk
  · intro k hk; rw [hf]; rw [hs] at hk; exact h.listed k hk

theorem Tracker.FreeOK.closeFd_keepAll {t : Tracker} (h : t.FreeOK) {fd : Int} (hfd : fd ≠ orphanFd) :
    (t.closeFd .keepAll fd).1.FreeOK := by
  rw [Tracker.closeFd_keepAll hfd]
  have key : ∀ k : Nat, (t.slab.map (Option.map (retag fd)))[k]? = some (none : Option TOp) ↔ t.slab[k]? = some (none : Option TOp) := by
    intro k
    simp only [List.getElem?_map]
    cases t.slab[k]? with
    | none => simp
    | some o => cases o <;> simp
  constructor
  · exact h.nodup
  · intro k hk; exact (key k).2 (h.vacant k hk)
  · intro k hk; exact h.listed k ((key k).1 hk)

theorem Tracker.closeFd_keepAll_slabGet (t : Tracker) {fd : Int} (hfd : fd ≠ orphanFd) (k : Nat) :
    (t.closeFd .keepAll fd).1.slabGet k = (t.slabGet k).map (retag fd) := by
  rw [Tracker.closeFd_keepAll hfd]
  unfold Tracker.slabGet
  simp only [List.getElem?_map]
  cases t.slab[k]? with
  | none => rfl
  | some o => cases o <;> rfl

-- ---------------------------------------------------------------------------------------------
-- the entries waiting for a notification
-- ---------------------------------------------------------------------------------------------

theorem find?_key_filter_ne {l : List (Nat × TOp)} {k k' : Nat} (h : k' ≠ k) :
    (l.filter (·.1 != k)).find? (·.1 == k') = l.find? (·.1 == k') := by
  induction l with
  | nil => rfl
  | cons p l ih =>
    by_cases hp : p.1 = k
    · have h1 : (p.1 != k) = false := by simp [hp]
      have h2 : (p.1 == k') = false := by simp [hp]; exact fun h' => h h'.symm
      rw [List.filter_cons, h1, List.find?_cons, h2]; simpa using ih
    · have h1 : (p.1 != k) = true := by simp [hp]
      rw [List.filter_cons, h1]
      simp only [if_true, List.find?_cons, ih]

theorem find?_key_filter_self (l : List (Nat × TOp)) (k : Nat) :
    (l.filter (·.1 != k)).find? (·.1 == k) = none := by
  rw [List.find?_eq_none]
  intro p hp
  simp only [List.mem_filter] at hp
  simpa using hp.2

theorem Tracker.closeFd_keepAll_notifGet (t : Tracker) {fd : Int} (hfd : fd ≠ orphanFd) (k : Nat) :
    (t.closeFd .keepAll fd).1.notifGet k = (t.notifGet k).map (retag fd) := by
  rw [Tracker.closeFd_keepAll hfd]
  unfold Tracker.notifGet
  simp only
  induction t.notif with
  | nil => rfl
  | cons p l ih =>
    simp only [List.map_cons, List.find?_cons]
    cases hp : p.1 == k
    · simpa using ih
    · simp

-- ---------------------------------------------------------------------------------------------
-- the table under `{ close := .keepAll, byKind := true, keepsSlot := true }`
-- ---------------------------------------------------------------------------------------------

/-- the configuration the theorems are about -/
def provedTrkCfg : TrkCfg := { close := .keepAll, byKind := true, keepsSlot := true }

/-- with nothing in the secondary map, every completion is looked up in the slab -/
theorem Tracker.lookup_of_notif_nil {t : Tracker} (hn : t.notif = []) (k : Nat) (b : Bool) :
    t.lookup true k b = t.slabGet k := by
  unfold Tracker.lookup Tracker.notifGet
  cases b <;> simp [hn]

theorem Tracker.take_of_notif_nil {t : Tracker} (hn : t.notif = []) {k : Nat} {e : TOp} (hk : t.slabGet k = some e)
    (b : Bool) : t.take true k b = (t.slabRemove k, some e) := by
  unfold Tracker.take Tracker.notifGet
  cases b <;> simp [hn, hk]

/-- the entry under `k` rewritten in place -/
def Tracker.replace (t : Tracker) (k : Nat) (e : TOp) : Tracker := { t with slab := t.slab.set k (some e) }

/-- taking the entry under `k` and putting it back for the notification is a rewrite in place: the key stays taken -/
theorem Tracker.slabRemove_awaitNotification (t : Tracker) (k : Nat) (e : TOp) :
    (t.slabRemove k).awaitNotification true k e = t.replace k e := by
  unfold Tracker.slabRemove Tracker.awaitNotification Tracker.replace
  simp [List.set_set]

theorem Tracker.replace_slabGet_key {t : Tracker} {k : Nat} {e0 : TOp} (hk : t.slabGet k = some e0) (e : TOp) :
    (t.replace k e).slabGet k = some e := by
  rw [Tracker.slabGet_eq_some] at hk ⊢
  have hlt : k < t.slab.length := by
    rcases Nat.lt_or_ge k t.slab.length with h1 | h1
    · exact h1
    · rw [List.getElem?_eq_none h1] at hk; cases hk
  unfold Tracker.replace
  simp [hlt]

theorem Tracker.replace_slabGet_other (t : Tracker) {k j : Nat} (e : TOp) (hj : j ≠ k) :
    (t.replace k e).slabGet j = t.slabGet j := by
  unfold Tracker.replace Tracker.slabGet
  simp only [List.getElem?_set]
  rw [if_neg (fun h => hj h.symm)]

theorem Tracker.FreeOK.replace {t : Tracker} (h : t.FreeOK) {k : Nat} {e0 : TOp} (hk : t.slabGet k = some e0) (e : TOp) :
    (t.replace k e).FreeOK := by
  rw [Tracker.slabGet_eq_some] at hk
  unfold Tracker.replace
  constructor
  · exact h.nodup
  · intro j hj
    have hv := h.vacant j hj
    simp only [List.getElem?_set]
    split
    · rename_i hkj; subst hkj; rw [hk] at hv; cases hv
    · exact hv
  · intro j hj
    simp only [List.getElem?_set] at hj
    split at hj
    · split at hj <;> simp at hj
    · exact h.listed j hj

/-- the entry `e` is the one that owns the buffers of the kernel-held operation `ko` -/
def Owns (e : TOp) (ko : KOp) : Prop :=
  (e.fd = ko.op.fd ∨ e.fd = orphanFd)
  ∧ (if ko.awaitsNotification then ∃ b, e.kind = .lease b ∧ ko.op.kind.buf = some b else e.kind = ko.op.kind)

theorem Owns.matchesOp {e : TOp} {ko : KOp} (h : Owns e ko) : matchesOp e ko = true := by
  obtain ⟨hfd, hk⟩ := h
  unfold Rzmq.matchesOp
  have h1 : (e.fd == ko.op.fd || e.fd == orphanFd) = true := by
    rcases hfd with h | h <;> simp [h]
  rw [h1]
  cases ha : ko.awaitsNotification
  · simp [ha] at hk; simp [hk]
  · simp only [ha, if_true] at hk
    obtain ⟨b, hb1, hb2⟩ := hk
    simp only [hb1, hb2, if_true]
    simp [OpKind.isSend, OpKind.buf]

theorem Owns.retag {e : TOp} {ko : KOp} (h : Owns e ko) (fd : Int) : Owns (retag fd e) ko := by
  obtain ⟨hfd, hk⟩ := h
  refine ⟨?_, by rw [retag_kind]; exact hk⟩
  rcases retag_fd fd e with h1 | h1
  · rw [h1]; exact hfd
  · exact Or.inr h1

/-- what holds of the table and the kernel in every reachable state -/
structure TrkSys.Inv (s : TrkSys) : Prop where
  notif : s.t.notif = []
  free : s.t.FreeOK
  keys : (s.kernel.map (·.key)).Nodup
  held : ∀ ko ∈ s.kernel, ∃ e, s.t.slabGet ko.key = some e ∧ Owns e ko
  cover : ∀ k e, s.t.slabGet k = some e → k ∈ s.kernel.map (·.key)
  mis : s.misattributed = []
  unk : s.unknown = []

theorem TrkSys.inv_init : TrkSys.Inv {} := by
  refine ⟨rfl, Tracker.freeOK_init, by simp, by simp, ?_, rfl, rfl⟩
  intro k e h; simp [Tracker.slabGet] at h

theorem mem_of_split {α : Type} {l l1 l2 : List α} {a x : α} (h : l = l1 ++ a :: l2) (hx : x ∈ l1 ++ l2) : x ∈ l := by
  subst h
  simp only [List.mem_append, List.mem_cons] at hx ⊢
  rcases hx with h | h
  · exact Or.inl h
  · exact Or.inr (Or.inr h)

theorem nodup_split_key {l1 l2 : List KOp} {ko : KOp} (h : ((l1 ++ ko :: l2).map (·.key)).Nodup) :
    ((l1 ++ l2).map (·.key)).Nodup ∧ ∀ x ∈ l1 ++ l2, x.key ≠ ko.key := by
  simp only [List.map_append, List.map_cons, List.nodup_append, List.nodup_cons, List.mem_map, List.mem_cons] at h
  obtain ⟨h1, ⟨h2, h3⟩, h4⟩ := h
  constructor
  · simp only [List.map_append, List.nodup_append, List.mem_map]
    refine ⟨h1, h3, ?_⟩
    rintro a ⟨x, hx, rfl⟩ b ⟨y, hy, rfl⟩
    exact h4 _ ⟨x, hx, rfl⟩ _ (Or.inr ⟨y, hy, rfl⟩)
  · intro x hx
    simp only [List.mem_append] at hx
    rcases hx with hx | hx
    · exact h4 _ ⟨x, hx, rfl⟩ _ (Or.inl rfl)
    · intro he; exact h2 ⟨x, hx, he⟩

theorem TrkSys.inv_step {s : TrkSys} (h : s.Inv) (ev : TrkEv) : (s.step provedTrkCfg ev).Inv := by
  cases ev with
  | submit fd kind =>
    simp only [TrkSys.step]
    have hvac := h.free.insert_key_vacant { fd := fd, kind := kind }
    have hfresh : ∀ ko ∈ s.kernel, ko.key ≠ (s.t.insert { fd := fd, kind := kind }).2 := by
      intro ko hko heq
      obtain ⟨e, he, -⟩ := h.held ko hko
      rw [heq, hvac] at he; cases he
    refine ⟨?_, h.free.insert _, ?_, ?_, ?_, h.mis, h.unk⟩
    · simp only [Tracker.insert_notif]; exact h.notif
    · simp only [List.map_append, List.map_cons, List.map_nil, List.nodup_append, List.mem_map]
      refine ⟨h.keys, by simp, ?_⟩
      rintro a ⟨x, hx, rfl⟩ b hb
      simp only [List.mem_cons, List.not_mem_nil, or_false] at hb
      subst hb
      exact hfresh x hx
    · intro ko hko
      simp only [List.mem_append, List.mem_cons, List.not_mem_nil, or_false] at hko
      rcases hko with hko | rfl
      · obtain ⟨e, he, ho⟩ := h.held ko hko
        exact ⟨e, by rw [Tracker.insert_slabGet_other (hfresh ko hko)]; exact he, ho⟩
      · exact ⟨_, h.free.insert_slabGet_key _, Or.inl rfl, by simp⟩
    · intro k e hk
      simp only [List.map_append, List.map_cons, List.map_nil, List.mem_append, List.mem_cons, List.not_mem_nil,
        or_false]
      rcases Tracker.insert_slabGet hk with rfl | h0
      · exact Or.inr rfl
      · exact Or.inl (h.cover k e h0)
  | closeFd fd =>
    simp only [TrkSys.step, provedTrkCfg]
    have hfd : (fd : Int) ≠ orphanFd := by unfold orphanFd; omega
    refine ⟨?_, h.free.closeFd_keepAll hfd, h.keys, ?_, ?_, h.mis, h.unk⟩
    · rw [Tracker.closeFd_keepAll hfd]; simp [h.notif]
    · intro ko hko
      obtain ⟨e, he, ho⟩ := h.held ko hko
      exact ⟨retag fd e, by simp only [Tracker.closeFd_keepAll_slabGet _ hfd, he, Option.map_some], ho.retag fd⟩
    · intro k e hk
      obtain ⟨e0, h0⟩ := Tracker.closeFd_slabGet hk
      exact h.cover k e0 h0
  | first i =>
    simp only [TrkSys.step, provedTrkCfg]
    cases hi : s.kernel[i]? with
    | none => exact h
    | some ko =>
      simp only
      split
      · exact h
      · rename_i hguard
        have hna : ko.awaitsNotification = false := by
          cases hh : ko.awaitsNotification <;> simp [hh] at hguard ⊢
        obtain ⟨l1, l2, hl, hset, -⟩ := getElem?_split hi
        have hko : ko ∈ s.kernel := by rw [hl]; simp
        obtain ⟨e, he, ho⟩ := h.held ko hko
        have hkind : e.kind = ko.op.kind := by have := ho.2; simpa [hna] using this
        obtain ⟨b, hb⟩ : ∃ b, ko.op.kind.buf = some b := by
          cases hh : ko.op.kind.buf with
          | none => simp [hh] at hguard
          | some b => exact ⟨b, rfl⟩
        have hkeys := h.keys
        rw [hl] at hkeys
        obtain ⟨-, hne⟩ := nodup_split_key hkeys
        rw [Tracker.take_of_notif_nil h.notif he false]
        simp only [hkind, hb, ho.matchesOp, if_true, Tracker.slabRemove_awaitNotification, hset]
        refine ⟨h.notif, h.free.replace he _, ?_, ?_, ?_, h.mis, h.unk⟩
        · simpa using hkeys
        · intro x hx
          simp only [List.mem_append, List.mem_cons] at hx
          have hother : x ∈ l1 ++ l2 → ∃ ex, (s.t.replace ko.key { fd := e.fd, kind := .lease b }).slabGet x.key
              = some ex ∧ Owns ex x := by
            intro hx'
            obtain ⟨ex, hex, hox⟩ := h.held x (mem_of_split hl hx')
            exact ⟨ex, by rw [Tracker.replace_slabGet_other _ _ (hne x hx')]; exact hex, hox⟩
          rcases hx with hx | rfl | hx
          · obtain ⟨ex, h1, h2⟩ := hother (by simp [hx])
            exact ⟨ex, h1, h2⟩
          · exact ⟨_, Tracker.replace_slabGet_key he _, ho.1, by simp [hb]⟩
          · obtain ⟨ex, h1, h2⟩ := hother (by simp [hx])
            exact ⟨ex, h1, h2⟩
        · intro k e' hk
          have hmap : (l1 ++ ({ ko with awaitsNotification := true } : KOp) :: l2).map (·.key)
              = s.kernel.map (·.key) := by rw [hl]; simp
          rw [hmap]
          by_cases hkk : k = ko.key
          · subst hkk; exact List.mem_map.2 ⟨ko, hko, rfl⟩
          · rw [Tracker.replace_slabGet_other _ _ hkk] at hk
            exact h.cover k e' hk
  | final i =>
    simp only [TrkSys.step, provedTrkCfg]
    cases hi : s.kernel[i]? with
    | none => exact h
    | some ko =>
      simp only
      obtain ⟨l1, l2, hl, -, herase⟩ := getElem?_split hi
      have hko : ko ∈ s.kernel := by rw [hl]; simp
      obtain ⟨e, he, ho⟩ := h.held ko hko
      have hkeys := h.keys
      rw [hl] at hkeys
      obtain ⟨hnd, hne⟩ := nodup_split_key hkeys
      rw [Tracker.take_of_notif_nil h.notif he]
      simp only [ho.matchesOp, if_true, herase]
      refine ⟨h.notif, h.free.slabRemove he, hnd, ?_, ?_, h.mis, h.unk⟩
      · intro x hx
        obtain ⟨ex, hex, hox⟩ := h.held x (mem_of_split hl hx)
        exact ⟨ex, by rw [Tracker.slabRemove_slabGet_other _ (hne x hx)]; exact hex, hox⟩
      · intro k e' hk
        have hkk : k ≠ ko.key := by
          rintro rfl; rw [Tracker.slabRemove_slabGet_key] at hk; cases hk
        rw [Tracker.slabRemove_slabGet_other _ hkk] at hk
        have := h.cover k e' hk
        rw [hl] at this
        simp only [List.map_append, List.map_cons, List.mem_append, List.mem_cons] at this ⊢
        rcases this with h1 | h1 | h1
        · exact Or.inl h1
        · exact absurd h1 hkk
        · exact Or.inr h1

theorem TrkSys.inv_run {s : TrkSys} (h : s.Inv) (evs : List TrkEv) : (s.run provedTrkCfg evs).Inv := by
  induction evs generalizing s with
  | nil => exact h
  | cons ev evs ih => exact ih (TrkSys.inv_step h ev)

theorem TrkSys.Inv.holds {s : TrkSys} (h : s.Inv) : ∀ ko ∈ s.kernel, s.holds ko = true := by
  intro ko hko
  obtain ⟨e, he, ho⟩ := h.held ko hko
  unfold TrkSys.holds
  rw [Tracker.lookup_of_notif_nil h.notif, he]
  exact ho.matchesOp

/-- nothing leaks: once the kernel holds nothing, the table is empty -/
theorem TrkSys.Inv.empty {s : TrkSys} (h : s.Inv) (hk : s.kernel = []) :
    (∀ k, s.t.slabGet k = none) ∧ s.t.notif = [] := by
  refine ⟨?_, h.notif⟩
  intro k
  cases hg : s.t.slabGet k with
  | none => rfl
  | some e =>
    have := h.cover k e hg
    rw [hk] at this; simp at this

end Rzmq
