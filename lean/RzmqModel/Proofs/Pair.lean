import RzmqModel.Model.Pair
import RzmqModel.Proofs.EngineRun
/-! Helper lemmas for the pair system (C05). -/
namespace Rzmq

-- ---------------------------------------------------------------------------------------------
-- outputs of one endpoint as a function of everything it has received
-- ---------------------------------------------------------------------------------------------

theorem sendsOf_append (a b : Out) : sendsOf (a ++ b) = sendsOf a ++ sendsOf b := by
  simp [sendsOf, Out.append_def]

@[simp] theorem sendsOf_empty : sendsOf ({} : Out) = [] := rfl

@[simp] theorem Out.app_nil_pair : ({} : Out).app = [] := rfl

/-- state reached from `Eng.init` after receiving `x` (in one read; by cut independence: in any reads) -/
def stOf (spec : AbsSpec) (cfg : Cfg) (x : Bytes) : Eng := (onNetworkBytes spec cfg 0 Eng.init x).1

/-- application actions produced while receiving `x` -/
def appOf (spec : AbsSpec) (cfg : Cfg) (x : Bytes) : List AppAct := (onNetworkBytes spec cfg 0 Eng.init x).2.app

section Generic
variable {spec : AbsSpec} {cfg : Cfg}

theorem emitted_nil (hw : WellBehaved spec) : emitted spec cfg [] = Gen.SIGNATURE := by
  simp only [emitted, onNetworkBytes_nil hw 0 quiescent_init', sendsOf_empty, List.append_nil]

theorem appOf_nil (hw : WellBehaved spec) : appOf spec cfg [] = [] := by
  simp only [appOf, onNetworkBytes_nil hw 0 quiescent_init', Out.app_nil_pair]

theorem stOf_nil (hw : WellBehaved spec) : stOf spec cfg [] = Eng.init := by
  simp only [stOf, onNetworkBytes_nil hw 0 quiescent_init']

theorem stOf_append (hw : WellBehaved spec) (x y : Bytes) :
    stOf spec cfg (x ++ y) = (onNetworkBytes spec cfg 0 (stOf spec cfg x) y).1 := by
  simp only [stOf, onNetworkBytes_append hw]

theorem emitted_append (hw : WellBehaved spec) (x y : Bytes) :
    emitted spec cfg (x ++ y) = emitted spec cfg x ++ sendsOf (onNetworkBytes spec cfg 0 (stOf spec cfg x) y).2 := by
  simp only [emitted, stOf, onNetworkBytes_append hw, sendsOf_append, List.append_assoc]

theorem appOf_append (hw : WellBehaved spec) (x y : Bytes) :
    appOf spec cfg (x ++ y) = appOf spec cfg x ++ (onNetworkBytes spec cfg 0 (stOf spec cfg x) y).2.app := by
  simp only [appOf, stOf, onNetworkBytes_append hw, Out.app_append]

theorem emitted_mono' (hw : WellBehaved spec) {x z : Bytes} (h : x <+: z) :
    emitted spec cfg x <+: emitted spec cfg z := by
  obtain ⟨y, rfl⟩ := h
  rw [emitted_append hw]
  exact List.prefix_append _ _

theorem appOf_mono (hw : WellBehaved spec) {x z : Bytes} (h : x <+: z) :
    appOf spec cfg x <+: appOf spec cfg z := by
  obtain ⟨y, rfl⟩ := h
  rw [appOf_append hw]
  exact List.prefix_append _ _

theorem sig_prefix_emitted (x : Bytes) : Gen.SIGNATURE <+: emitted spec cfg x :=
  List.prefix_append _ _

/-- a closed engine ignores everything -/
theorem onNetworkBytes_closed {s : Eng} (h : s.phase = .closed) (d : Bytes) :
    onNetworkBytes spec cfg 0 s d = ({ s with acc := s.acc ++ d }, {}) := by
  unfold onNetworkBytes
  exact run_closed (s := { s with acc := s.acc ++ d }) h _

theorem stOf_closed_append (hw : WellBehaved spec) {x : Bytes} (h : (stOf spec cfg x).phase = .closed) (y : Bytes) :
    (stOf spec cfg (x ++ y)).phase = .closed := by
  rw [stOf_append hw, onNetworkBytes_closed h]
  exact h

theorem stOf_closed_mono (hw : WellBehaved spec) {x z : Bytes} (hp : x <+: z)
    (h : (stOf spec cfg x).phase = .closed) : (stOf spec cfg z).phase = .closed := by
  obtain ⟨y, rfl⟩ := hp
  exact stOf_closed_append hw h y

theorem emitted_closed_append (hw : WellBehaved spec) {x : Bytes} (h : (stOf spec cfg x).phase = .closed)
    (y : Bytes) : emitted spec cfg (x ++ y) = emitted spec cfg x := by
  rw [emitted_append hw, onNetworkBytes_closed h]
  simp

theorem appOf_closed_append (hw : WellBehaved spec) {x : Bytes} (h : (stOf spec cfg x).phase = .closed)
    (y : Bytes) : appOf spec cfg (x ++ y) = appOf spec cfg x := by
  rw [appOf_append hw, onNetworkBytes_closed h]
  simp

end Generic

-- ---------------------------------------------------------------------------------------------
-- list helpers
-- ---------------------------------------------------------------------------------------------

theorem prefix_antisymm' {α : Type} {a b : List α} (h1 : a <+: b) (h2 : b <+: a) : a = b := by
  obtain ⟨t, rfl⟩ := h1
  obtain ⟨u, hu⟩ := h2
  have : (t ++ u).length = 0 := by
    have := congrArg List.length hu
    simp only [List.length_append] at this ⊢
    omega
  have ht : t = [] := by
    cases t with
    | nil => rfl
    | cons x xs => simp at this
  simp [ht]

theorem take_prefix_self {α : Type} (k : Nat) (l : List α) : l.take k <+: l :=
  ⟨l.drop k, List.take_append_drop k l⟩

-- ---------------------------------------------------------------------------------------------
-- moves
-- ---------------------------------------------------------------------------------------------

section Moves
variable {spec : AbsSpec} {cfgA cfgB : Cfg}

theorem Pair.move_ab_nil {p : Pair} (n : Nat) (h : p.ab = []) : p.move spec cfgA cfgB (.ab n) = p := by
  simp [Pair.move, h]

theorem Pair.move_ba_nil {p : Pair} (n : Nat) (h : p.ba = []) : p.move spec cfgA cfgB (.ba n) = p := by
  simp [Pair.move, h]

theorem Pair.move_ab_cons {p : Pair} (n : Nat) (h : p.ab ≠ []) :
    p.move spec cfgA cfgB (.ab n) =
      { p with b := (onNetworkBytes spec cfgB 0 p.b (p.ab.take (min (n + 1) p.ab.length))).1,
               ab := p.ab.drop (min (n + 1) p.ab.length),
               ba := p.ba ++ sendsOf (onNetworkBytes spec cfgB 0 p.b (p.ab.take (min (n + 1) p.ab.length))).2,
               appB := p.appB ++ (onNetworkBytes spec cfgB 0 p.b (p.ab.take (min (n + 1) p.ab.length))).2.app,
               recvB := p.recvB ++ p.ab.take (min (n + 1) p.ab.length) } := by
  simp [Pair.move, h]

theorem Pair.move_ba_cons {p : Pair} (n : Nat) (h : p.ba ≠ []) :
    p.move spec cfgA cfgB (.ba n) =
      { p with a := (onNetworkBytes spec cfgA 0 p.a (p.ba.take (min (n + 1) p.ba.length))).1,
               ba := p.ba.drop (min (n + 1) p.ba.length),
               ab := p.ab ++ sendsOf (onNetworkBytes spec cfgA 0 p.a (p.ba.take (min (n + 1) p.ba.length))).2,
               appA := p.appA ++ (onNetworkBytes spec cfgA 0 p.a (p.ba.take (min (n + 1) p.ba.length))).2.app,
               recvA := p.recvA ++ p.ba.take (min (n + 1) p.ba.length) } := by
  simp [Pair.move, h]

end Moves

-- ---------------------------------------------------------------------------------------------
-- the invariant of every schedule (end-of-stream moves included)
-- ---------------------------------------------------------------------------------------------

/-- `rA` / `rB`: the bytes each engine had received when it stopped processing (all of them unless it was closed) -/
structure GI (spec : AbsSpec) (cfgA cfgB : Cfg) (p : Pair) (rA rB : Bytes) : Prop where
  preA : rA <+: p.recvA
  preB : rB <+: p.recvB
  emA : p.recvB ++ p.ab = emitted spec cfgA rA
  emB : p.recvA ++ p.ba = emitted spec cfgB rB
  appA : p.appA = appOf spec cfgA rA
  appB : p.appB = appOf spec cfgB rB
  liveA : p.a.phase = .closed ∨ (rA = p.recvA ∧ p.a = stOf spec cfgA rA)
  liveB : p.b.phase = .closed ∨ (rB = p.recvB ∧ p.b = stOf spec cfgB rB)

/-- causal bound: nothing on the wire or received exceeds the transcripts `FA`, `FB` -/
def Bd (FA FB : Bytes) (p : Pair) : Prop := p.recvA ++ p.ba <+: FB ∧ p.recvB ++ p.ab <+: FA

section Inv
variable {spec : AbsSpec} {cfgA cfgB : Cfg}

theorem GI.start (hw : WellBehaved spec) : GI spec cfgA cfgB Pair.start [] [] := by
  refine ⟨List.prefix_refl _, List.prefix_refl _, ?_, ?_, ?_, ?_, Or.inr ⟨rfl, ?_⟩, Or.inr ⟨rfl, ?_⟩⟩
  · rw [emitted_nil hw]; rfl
  · rw [emitted_nil hw]; rfl
  · rw [appOf_nil hw]; rfl
  · rw [appOf_nil hw]; rfl
  · rw [stOf_nil hw]; rfl
  · rw [stOf_nil hw]; rfl

theorem GI.move (hw : WellBehaved spec) {FA FB : Bytes}
    (hFA : emitted spec cfgA FB <+: FA) (hFB : emitted spec cfgB FA <+: FB)
    {p : Pair} {rA rB : Bytes} (h : GI spec cfgA cfgB p rA rB) (hb : Bd FA FB p) (m : Move) :
    ∃ rA' rB', GI spec cfgA cfgB (p.move spec cfgA cfgB m) rA' rB' ∧ Bd FA FB (p.move spec cfgA cfgB m) := by
  cases m with
  | ab n =>
    by_cases hne : p.ab = []
    · rw [Pair.move_ab_nil n hne]; exact ⟨rA, rB, h, hb⟩
    · rw [Pair.move_ab_cons n hne]
      generalize hk : min (n + 1) p.ab.length = k
      have htd : p.recvB ++ List.take k p.ab ++ List.drop k p.ab = p.recvB ++ p.ab := by
        rw [List.append_assoc, List.take_append_drop]
      have hpre : p.recvB ++ List.take k p.ab <+: FA :=
        List.IsPrefix.trans ((List.prefix_append_right_inj _).2 (take_prefix_self k p.ab)) hb.2
      rcases h.liveB with hc | ⟨hr, hst⟩
      · refine ⟨rA, rB, ⟨h.preA, List.IsPrefix.trans h.preB (List.prefix_append _ _), ?_, ?_, h.appA, ?_, h.liveA,
          Or.inl ?_⟩, ?_, ?_⟩
        · simp only; rw [htd]; exact h.emA
        · simp only [onNetworkBytes_closed hc, sendsOf_empty, List.append_nil]; exact h.emB
        · simp only [onNetworkBytes_closed hc, Out.app_nil_pair, List.append_nil]; exact h.appB
        · simp only [onNetworkBytes_closed hc]; exact hc
        · simp only [onNetworkBytes_closed hc, sendsOf_empty, List.append_nil]; exact hb.1
        · simp only; rw [htd]; exact hb.2
      · subst hr
        have hemB : p.recvA ++ (p.ba ++ sendsOf (onNetworkBytes spec cfgB 0 p.b (List.take k p.ab)).2)
            = emitted spec cfgB (p.recvB ++ List.take k p.ab) := by
          rw [emitted_append hw, ← h.emB, hst, List.append_assoc]
        refine ⟨rA, p.recvB ++ List.take k p.ab, ⟨h.preA, List.prefix_refl _, ?_, hemB, h.appA, ?_, h.liveA,
          Or.inr ⟨rfl, ?_⟩⟩, ?_, ?_⟩
        · simp only; rw [htd]; exact h.emA
        · simp only; rw [appOf_append hw, ← h.appB, hst]
        · simp only; rw [stOf_append hw, hst]
        · simp only; rw [hemB]
          exact List.IsPrefix.trans (emitted_mono' hw hpre) hFB
        · simp only; rw [htd]; exact hb.2
  | ba n =>
    by_cases hne : p.ba = []
    · rw [Pair.move_ba_nil n hne]; exact ⟨rA, rB, h, hb⟩
    · rw [Pair.move_ba_cons n hne]
      generalize hk : min (n + 1) p.ba.length = k
      have htd : p.recvA ++ List.take k p.ba ++ List.drop k p.ba = p.recvA ++ p.ba := by
        rw [List.append_assoc, List.take_append_drop]
      have hpre : p.recvA ++ List.take k p.ba <+: FB :=
        List.IsPrefix.trans ((List.prefix_append_right_inj _).2 (take_prefix_self k p.ba)) hb.1
      rcases h.liveA with hc | ⟨hr, hst⟩
      · refine ⟨rA, rB, ⟨List.IsPrefix.trans h.preA (List.prefix_append _ _), h.preB, ?_, ?_, ?_, h.appB,
          Or.inl ?_, h.liveB⟩, ?_, ?_⟩
        · simp only [onNetworkBytes_closed hc, sendsOf_empty, List.append_nil]; exact h.emA
        · simp only; rw [htd]; exact h.emB
        · simp only [onNetworkBytes_closed hc, Out.app_nil_pair, List.append_nil]; exact h.appA
        · simp only [onNetworkBytes_closed hc]; exact hc
        · simp only; rw [htd]; exact hb.1
        · simp only [onNetworkBytes_closed hc, sendsOf_empty, List.append_nil]; exact hb.2
      · subst hr
        have hemA : p.recvB ++ (p.ab ++ sendsOf (onNetworkBytes spec cfgA 0 p.a (List.take k p.ba)).2)
            = emitted spec cfgA (p.recvA ++ List.take k p.ba) := by
          rw [emitted_append hw, ← h.emA, hst, List.append_assoc]
        refine ⟨p.recvA ++ List.take k p.ba, rB, ⟨List.prefix_refl _, h.preB, hemA, ?_, ?_, h.appB,
          Or.inr ⟨rfl, ?_⟩, h.liveB⟩, ?_, ?_⟩
        · simp only; rw [htd]; exact h.emB
        · simp only; rw [appOf_append hw, ← h.appA, hst]
        · simp only; rw [stOf_append hw, hst]
        · simp only; rw [htd]; exact hb.1
        · simp only; rw [hemA]
          exact List.IsPrefix.trans (emitted_mono' hw hpre) hFA
  | eofA =>
    simp only [Pair.move]
    split
    · exact ⟨rA, rB, ⟨h.preA, h.preB, h.emA, h.emB, h.appA, h.appB, Or.inl rfl, h.liveB⟩, hb⟩
    · exact ⟨rA, rB, h, hb⟩
  | eofB =>
    simp only [Pair.move]
    split
    · exact ⟨rA, rB, ⟨h.preA, h.preB, h.emA, h.emB, h.appA, h.appB, h.liveA, Or.inl rfl⟩, hb⟩
    · exact ⟨rA, rB, h, hb⟩

theorem GI.run (hw : WellBehaved spec) {FA FB : Bytes}
    (hFA : emitted spec cfgA FB <+: FA) (hFB : emitted spec cfgB FA <+: FB) (s : List Move) :
    ∀ {p : Pair} {rA rB : Bytes}, GI spec cfgA cfgB p rA rB → Bd FA FB p →
    ∃ rA' rB', GI spec cfgA cfgB (Pair.run spec cfgA cfgB p s) rA' rB' ∧ Bd FA FB (Pair.run spec cfgA cfgB p s) := by
  induction s with
  | nil => intro p rA rB h hb; exact ⟨rA, rB, h, hb⟩
  | cons m ms ih =>
    intro p rA rB h hb
    obtain ⟨rA', rB', h', hb'⟩ := GI.move hw hFA hFB h hb m
    exact ih h' hb'

theorem Bd.start {FA FB : Bytes}
    (hFA : emitted spec cfgA FB <+: FA) (hFB : emitted spec cfgB FA <+: FB) : Bd FA FB Pair.start :=
  ⟨List.IsPrefix.trans (sig_prefix_emitted _) hFB, List.IsPrefix.trans (sig_prefix_emitted _) hFA⟩

/-- every schedule from the start state satisfies the invariant and the causal bound -/
theorem GI.of_start (hw : WellBehaved spec) {FA FB : Bytes}
    (hFA : emitted spec cfgA FB <+: FA) (hFB : emitted spec cfgB FA <+: FB) (s : List Move) :
    ∃ rA rB, GI spec cfgA cfgB (Pair.run spec cfgA cfgB Pair.start s) rA rB
      ∧ Bd FA FB (Pair.run spec cfgA cfgB Pair.start s) :=
  GI.run hw hFA hFB s (GI.start hw) (Bd.start hFA hFB)

/-- without end-of-stream moves: both engines are exactly where their received bytes put them -/
structure PSD (spec : AbsSpec) (cfgA cfgB : Cfg) (p : Pair) : Prop where
  stA : p.a = stOf spec cfgA p.recvA
  stB : p.b = stOf spec cfgB p.recvB
  appA : p.appA = appOf spec cfgA p.recvA
  appB : p.appB = appOf spec cfgB p.recvB
  emA : p.recvB ++ p.ab = emitted spec cfgA p.recvA
  emB : p.recvA ++ p.ba = emitted spec cfgB p.recvB

theorem PSD.start (hw : WellBehaved spec) : PSD spec cfgA cfgB Pair.start := by
  refine ⟨?_, ?_, ?_, ?_, ?_, ?_⟩
  · show _ = stOf spec cfgA []; rw [stOf_nil hw]; rfl
  · show _ = stOf spec cfgB []; rw [stOf_nil hw]; rfl
  · show _ = appOf spec cfgA []; rw [appOf_nil hw]; rfl
  · show _ = appOf spec cfgB []; rw [appOf_nil hw]; rfl
  · show _ = emitted spec cfgA []; rw [emitted_nil hw]; rfl
  · show _ = emitted spec cfgB []; rw [emitted_nil hw]; rfl

theorem PSD.move (hw : WellBehaved spec) {p : Pair} (h : PSD spec cfgA cfgB p) (m : Move)
    (hm : m ≠ .eofA ∧ m ≠ .eofB) : PSD spec cfgA cfgB (p.move spec cfgA cfgB m) := by
  cases m with
  | ab n =>
    by_cases hne : p.ab = []
    · rw [Pair.move_ab_nil n hne]; exact h
    · rw [Pair.move_ab_cons n hne]
      generalize min (n + 1) p.ab.length = k
      have htd : p.recvB ++ List.take k p.ab ++ List.drop k p.ab = p.recvB ++ p.ab := by
        rw [List.append_assoc, List.take_append_drop]
      refine ⟨h.stA, ?_, h.appA, ?_, ?_, ?_⟩
      · simp only; rw [stOf_append hw, ← h.stB]
      · simp only; rw [appOf_append hw, ← h.appB, ← h.stB]
      · simp only; rw [htd]; exact h.emA
      · simp only; rw [emitted_append hw, ← h.emB, ← h.stB, List.append_assoc]
  | ba n =>
    by_cases hne : p.ba = []
    · rw [Pair.move_ba_nil n hne]; exact h
    · rw [Pair.move_ba_cons n hne]
      generalize min (n + 1) p.ba.length = k
      have htd : p.recvA ++ List.take k p.ba ++ List.drop k p.ba = p.recvA ++ p.ba := by
        rw [List.append_assoc, List.take_append_drop]
      refine ⟨?_, h.stB, ?_, h.appB, ?_, ?_⟩
      · simp only; rw [stOf_append hw, ← h.stA]
      · simp only; rw [appOf_append hw, ← h.appA, ← h.stA]
      · simp only; rw [emitted_append hw, ← h.emA, ← h.stA, List.append_assoc]
      · simp only; rw [htd]; exact h.emB
  | eofA => exact absurd rfl hm.1
  | eofB => exact absurd rfl hm.2

theorem PSD.run (hw : WellBehaved spec) (s : List Move) (hne : ∀ m ∈ s, m ≠ .eofA ∧ m ≠ .eofB) :
    ∀ {p : Pair}, PSD spec cfgA cfgB p → PSD spec cfgA cfgB (Pair.run spec cfgA cfgB p s) := by
  induction s with
  | nil => intro p h; exact h
  | cons m ms ih =>
    intro p h
    exact ih (fun x hx => hne x (List.mem_cons_of_mem _ hx)) (PSD.move hw h m (hne m (List.mem_cons_self ..)))

theorem PSD.of_start (hw : WellBehaved spec) (s : List Move) (hne : ∀ m ∈ s, m ≠ .eofA ∧ m ≠ .eofB) :
    PSD spec cfgA cfgB (Pair.run spec cfgA cfgB Pair.start s) :=
  PSD.run hw s hne (PSD.start hw)

/-- two complete eof-free schedules deliver the same bytes -/
theorem complete_recv_eq (hw : WellBehaved spec) (s1 s2 : List Move)
    (hne1 : ∀ m ∈ s1, m ≠ .eofA ∧ m ≠ .eofB) (hne2 : ∀ m ∈ s2, m ≠ .eofA ∧ m ≠ .eofB)
    (h1 : (Pair.run spec cfgA cfgB Pair.start s1).ab = [] ∧ (Pair.run spec cfgA cfgB Pair.start s1).ba = [])
    (h2 : (Pair.run spec cfgA cfgB Pair.start s2).ab = [] ∧ (Pair.run spec cfgA cfgB Pair.start s2).ba = []) :
    (Pair.run spec cfgA cfgB Pair.start s1).recvA = (Pair.run spec cfgA cfgB Pair.start s2).recvA
    ∧ (Pair.run spec cfgA cfgB Pair.start s1).recvB = (Pair.run spec cfgA cfgB Pair.start s2).recvB := by
  have q1 := PSD.of_start (cfgA := cfgA) (cfgB := cfgB) hw s1 hne1
  have q2 := PSD.of_start (cfgA := cfgA) (cfgB := cfgB) hw s2 hne2
  have e1A := q1.emA; have e1B := q1.emB; have e2A := q2.emA; have e2B := q2.emB
  rw [h1.1, List.append_nil] at e1A
  rw [h1.2, List.append_nil] at e1B
  rw [h2.1, List.append_nil] at e2A
  rw [h2.2, List.append_nil] at e2B
  -- schedule 1 stays below the fixpoint of schedule 2, and conversely
  obtain ⟨_, _, -, b12⟩ := GI.of_start (cfgA := cfgA) (cfgB := cfgB) hw
    (FA := (Pair.run spec cfgA cfgB Pair.start s2).recvB) (FB := (Pair.run spec cfgA cfgB Pair.start s2).recvA)
    (by rw [← e2A]; exact List.prefix_refl _) (by rw [← e2B]; exact List.prefix_refl _) s1
  obtain ⟨_, _, -, b21⟩ := GI.of_start (cfgA := cfgA) (cfgB := cfgB) hw
    (FA := (Pair.run spec cfgA cfgB Pair.start s1).recvB) (FB := (Pair.run spec cfgA cfgB Pair.start s1).recvA)
    (by rw [← e1A]; exact List.prefix_refl _) (by rw [← e1B]; exact List.prefix_refl _) s2
  unfold Bd at b12 b21
  rw [h1.1, h1.2, List.append_nil, List.append_nil] at b12
  rw [h2.1, h2.2, List.append_nil, List.append_nil] at b21
  exact ⟨prefix_antisymm' b12.1 b21.1, prefix_antisymm' b12.2 b21.2⟩

end Inv

-- ---------------------------------------------------------------------------------------------
-- single steps of the handshake on well-formed peer bytes
-- ---------------------------------------------------------------------------------------------

section Steps
variable {spec : AbsSpec} {cfg : Cfg}

/-- greeting-phase states -/
def gs (rs : Bool) (v : Option Version) (acc : Bytes) : Eng := { acc := acc, revisionSent := rs, version := v }

theorem init_eq_gs : Eng.init = gs false none [] := rfl

theorem addAcc_gs (rs v acc d) : addAcc (gs rs v acc) d = gs rs v (acc ++ d) := rfl

theorem step_g1 (t : Nat) (r : Bytes) :
    step spec cfg t (gs false none (Gen.SIGNATURE ++ r))
      = some (gs true none (Gen.SIGNATURE ++ r), { net := [sendAct [Gen.V3_REVISION]] }) := by
  simp [step, gs, Gen.SIGNATURE, Gen.SIGNATURE_LENGTH, Gen.sigFirst, Gen.sigLast]

theorem step_g2_none (t : Nat) : step spec cfg t (gs true none Gen.SIGNATURE) = none := by
  simp [step, gs, Gen.SIGNATURE, Gen.REVISION_OFFSET]

theorem step_g2 (t : Nat) (r : Bytes) :
    step spec cfg t (gs true none (Gen.SIGNATURE ++ Gen.V3_REVISION :: r))
      = some (gs true (some .v3) (Gen.SIGNATURE ++ Gen.V3_REVISION :: r), { net := [sendAct (v3Tail cfg)] }) := by
  simp [step, gs, Gen.SIGNATURE, Gen.REVISION_OFFSET, Gen.V3_REVISION]

theorem step_g3_none (t : Nat) (acc : Bytes) (h : acc.length < 64) :
    step spec cfg t (gs true (some .v3) acc) = none := by
  simp [step, gs, Gen.GREETING_LENGTH, h]

def tailOf (k : MechKind) (srv : Bool) : Bytes :=
  Gen.GREETING_VERSION_MINOR_BYTE :: mechNameBytes k ++ [if srv then 1 else 0] ++ List.replicate Gen.PADDING_LENGTH 0
def greetOf (k : MechKind) (srv : Bool) : Bytes := Gen.SIGNATURE ++ Gen.V3_REVISION :: tailOf k srv
theorem greetOf_length (k : MechKind) (srv : Bool) : (greetOf k srv).length = 64 := by
  cases k <;> rfl
theorem decodeGreeting_greetOf (k : MechKind) (srv : Bool) :
    decodeGreeting (greetOf k srv) = some { mechanism := mechNameBytes k, asServer := srv } := by
  cases k <;> cases srv <;> decide
theorem find_known (k : MechKind) :
    Gen.knownMechanisms.find? (fun k' => mechNameBytes k' == mechNameBytes k) = some k := by
  cases k <;> decide

/-- security-phase states of the PLAIN mechanism -/
def secS (st : PlainState) (acc : Bytes) : Eng :=
  { phase := .security, acc := acc, revisionSent := true, version := some .v3, mech := .plain st,
    gNegotiated := some .plain }

theorem step_g3_err (t : Nat) (k : MechKind) (srv : Bool) (r : Bytes) (e : ErrClass)
    (hneg : negotiate spec cfg { mechanism := mechNameBytes k, asServer := srv } = .error e) :
    step spec cfg t (gs true (some .v3) (greetOf k srv ++ r)) = some (fail (gs true (some .v3) r) e) := by
  have hl := greetOf_length k srv
  have ht : (greetOf k srv ++ r).take 64 = greetOf k srv := List.take_left' hl
  have hd : (greetOf k srv ++ r).drop 64 = r := List.drop_left' hl
  simp only [step, gs, Gen.GREETING_LENGTH, ht, hd, decodeGreeting_greetOf, hneg]
  simp [hl]

theorem step_g3_sec (t : Nat) (k : MechKind) (srv : Bool) (r : Bytes) (m : Mech)
    (hneg : negotiate spec cfg { mechanism := mechNameBytes k, asServer := srv } = .ok m)
    (hst : mechStatus spec cfg m ≠ .ready) :
    step spec cfg t (gs true (some .v3) (greetOf k srv ++ r))
      = some ({ gs true (some .v3) r with mech := m, gNegotiated := some (mechKindOf m), phase := .security }, {}) := by
  have hl := greetOf_length k srv
  have ht : (greetOf k srv ++ r).take 64 = greetOf k srv := List.take_left' hl
  have hd : (greetOf k srv ++ r).drop 64 = r := List.drop_left' hl
  simp only [step, gs, Gen.GREETING_LENGTH, ht, hd, decodeGreeting_greetOf, hneg]
  simp [hl, hst]

theorem negotiate_disabled (k : MechKind) (srv : Bool) (h : mechEnabled cfg k = false) :
    negotiate spec cfg { mechanism := mechNameBytes k, asServer := srv } = .error .sec := by
  simp [negotiate, find_known, h]

theorem negotiate_null (srv : Bool) (h : cfg.securityEnabled = false) :
    negotiate spec cfg { mechanism := mechNameBytes .null, asServer := srv } = .ok .null := by
  simp [negotiate, find_known, mechEnabled, h]

theorem negotiate_plain (srv : Bool) (h : cfg.usePlain = true) :
    negotiate spec cfg { mechanism := mechNameBytes .plain, asServer := srv }
      = .ok (.plain (if cfg.isServer then .serverExpectHello else .clientSendHello)) := by
  simp [negotiate, find_known, mechEnabled, h]

theorem step_g3_mismatch (t : Nat) (k : MechKind) (srv : Bool) (r : Bytes) (h : mechEnabled cfg k = false) :
    step spec cfg t (gs true (some .v3) (greetOf k srv ++ r)) = some (fail (gs true (some .v3) r) .sec) :=
  step_g3_err t k srv r _ (negotiate_disabled k srv h)

theorem step_g3_plain_srv (t : Nat) (srv : Bool) (r : Bytes) (h : cfg.usePlain = true) (hs : cfg.isServer = true) :
    step spec cfg t (gs true (some .v3) (greetOf .plain srv ++ r)) = some (secS .serverExpectHello r, {}) := by
  rw [step_g3_sec t _ srv r _ (negotiate_plain srv h) (by simp [hs, mechStatus])]
  simp [hs, secS, gs, mechKindOf]

theorem step_g3_plain_cli (t : Nat) (srv : Bool) (r : Bytes) (h : cfg.usePlain = true) (hs : cfg.isServer = false) :
    step spec cfg t (gs true (some .v3) (greetOf .plain srv ++ r)) = some (secS .clientSendHello r, {}) := by
  rw [step_g3_sec t _ srv r _ (negotiate_plain srv h) (by simp [hs, mechStatus])]
  simp [hs, secS, gs, mechKindOf]

def helloTok (cfg : Cfg) : Bytes :=
  lenPrefixed Gen.plainHello ++ helloBody (cfg.plainUser.getD []) (cfg.plainPass.getD [])

def helloBytes (cfg : Cfg) : Bytes := encodeCodec (cmdFrame (helloTok cfg))

theorem step_sec_cli_hello (t : Nat) (r : Bytes) :
    step spec cfg t (secS .clientSendHello r)
      = some (secS .clientExpectWelcome r, { net := [sendAct (helloBytes cfg)] }) := by
  simp [step, secS, produceToken, helloBytes, helloTok]

theorem step_sec_cli_wait (t : Nat) : step spec cfg t (secS .clientExpectWelcome []) = none := by
  simp [step, secS, produceToken, mechStatus, decodeBuffer]

theorem step_sec_srv_wait (t : Nat) : step spec cfg t (secS .serverExpectHello []) = none := by
  simp [step, secS, produceToken, mechStatus, decodeBuffer]

theorem parseHello_helloBody (u p : Bytes) (hu : u.length ≤ 255) (hp : p.length ≤ 255) :
    parseHello (helloBody u p) = some (u, p) := by
  have h1 : List.take 255 u = u := List.take_of_length_le hu
  have h2 : List.take 255 p = p := List.take_of_length_le hp
  simp only [helloBody, h1, h2, parseHello, List.cons_append, List.length_cons, List.length_append,
    toNat_ofNat_small _ hu, toNat_ofNat_small _ hp, List.take_left', List.drop_left']
  rw [if_neg (by omega), if_neg (by omega)]
  simp

theorem step_sec_srv_bad (t : Nat) (peer : Cfg) (r : Bytes) (hs : cfg.isServer = true) (hmax : cfg.maxMsgSize < 0)
    (hu : (peer.plainUser.getD []).length ≤ 255) (hp : (peer.plainPass.getD []).length ≤ 255)
    (hwrong : cfg.plainUser ≠ some (peer.plainUser.getD []) ∨ cfg.plainPass ≠ some (peer.plainPass.getD [])) :
    step spec cfg t (secS .serverExpectHello (helloBytes peer ++ r))
      = some (fail (secS .serverExpectHello r) .auth) := by
  have hlen : (helloTok peer).length ≤ 600 := by
    simp [helloTok, lenPrefixed, helloBody, Gen.plainHello]; omega
  have hdec : decodeBuffer (hsLimit cfg) (helloBytes peer ++ r) = .frame (cmdFrame (helloTok peer)) r := by
    apply decodeBuffer_encode'
    · simp only [cmdFrame, two64]; omega
    · exact Or.inl ((hsLimit_neg_iff cfg).mpr hmax)
  have hcred : (cfg.plainUser == some (peer.plainUser.getD []) && cfg.plainPass == some (peer.plainPass.getD [])) = false := by
    rcases hwrong with h | h
    · simp [h]
    · simp [h]
  have hpt : processToken spec cfg (.plain .serverExpectHello) (helloTok peer) = .error .auth := by
    simp only [helloTok, lenPrefixed, Gen.plainHello, processToken, List.cons_append]
    simp [hs, parseHello_helloBody _ _ hu hp, hcred]
  simp only [step, secS, produceToken, mechStatus, hdec, cmdFrame, hpt]
  simp [fail]

def rdy (acc : Bytes) : Eng :=
  { phase := .ready, acc := acc, revisionSent := true, version := some .v3, mech := .null, gNegotiated := some .null }

theorem step_g3_null (t : Nat) (srv : Bool) (r : Bytes) (h : cfg.securityEnabled = false) :
    step spec cfg t (gs true (some .v3) (greetOf .null srv ++ r))
      = some (rdy r, { net := if cfg.isServer then [] else [sendAct (readyBytes cfg)] }) := by
  have hl := greetOf_length .null srv
  have ht : (greetOf .null srv ++ r).take 64 = greetOf .null srv := by
    rw [List.take_left' hl]
  have hd : (greetOf .null srv ++ r).drop 64 = r := by
    rw [List.drop_left' hl]
  simp only [step, gs, Gen.GREETING_LENGTH, ht, hd, decodeGreeting_greetOf, negotiate, find_known]
  simp [hl, mechEnabled, h, mechStatus, enterReady, rdy, mechKindOf]

theorem ofBe_be32 (n : Nat) (h : n < 4294967296) : ofBe (be32 n) = n := by
  simp only [ofBe, be32, List.foldl_cons, List.foldl_nil, UInt8.toNat_ofNat']
  omega

theorem parseProps_encode : ∀ (ps : Props) (fuel : Nat), ps.length ≤ fuel →
    (∀ p ∈ ps, p.1.length ≤ 255 ∧ validUtf8 p.1 = true ∧ p.2.length < 4294967296) →
    parseProps fuel (encodeProps ps) = some ps := by
  intro ps
  induction ps with
  | nil => intro fuel _ _; cases fuel <;> rfl
  | cons p ps ih =>
    intro fuel hf hp
    obtain ⟨n, v⟩ := p
    obtain ⟨hn, hu, hv⟩ := hp (n, v) (List.mem_cons_self ..)
    simp only at hn hu hv
    cases fuel with
    | zero => simp at hf
    | succ fuel =>
      have ih' := ih fuel (by simpa using hf) (fun q hq => hp q (List.mem_cons_of_mem _ hq))
      have hnl : (UInt8.ofNat n.length).toNat = n.length := toNat_ofNat_small _ hn
      simp only [encodeProps, if_neg (show ¬ n.length > 255 by omega), List.cons_append, List.append_assoc,
        parseProps, hnl, List.take_left', List.drop_left', hu]
      have h4 : (be32 v.length).length = 4 := rfl
      have ht : List.take 4 (be32 v.length ++ (v ++ encodeProps ps)) = be32 v.length := List.take_left' h4
      have hd : List.drop 4 (be32 v.length ++ (v ++ encodeProps ps)) = v ++ encodeProps ps := List.drop_left' h4
      simp only [ht, hd, ofBe_be32 _ hv, List.take_left', List.drop_left', ih']
      simp [be32]

theorem ofBytes_bytes (n : SockName) : SockName.ofBytes n.bytes = n := by
  cases n <;> decide

theorem localReadyProps_ok (peer : Cfg) (h : peer.routingId.length ≤ 255) :
    ∀ p ∈ localReadyProps peer, p.1.length ≤ 255 ∧ validUtf8 p.1 = true ∧ p.2.length < 4294967296 := by
  intro p hp
  simp only [localReadyProps, List.mem_append, List.mem_singleton] at hp
  rcases hp with hp | rfl
  · split at hp
    · simp at hp
    · simp only [List.mem_singleton] at hp
      subst hp
      refine ⟨(by decide : keyIdentity.length ≤ 255), (by decide : validUtf8 keyIdentity = true), ?_⟩
      simp only; omega
  · refine ⟨(by decide : keySocketType.length ≤ 255), (by decide : validUtf8 keySocketType = true), ?_⟩
    show peer.sockType.bytes.length < 4294967296
    cases peer.sockType <;> decide

theorem lookup_sockType (peer : Cfg) :
    lookupLast keySocketType (localReadyProps peer) = some peer.sockType.bytes := by
  simp only [localReadyProps]
  split <;> simp [lookupLast]

theorem lookup_identity (peer : Cfg) :
    lookupLast keyIdentity (localReadyProps peer)
      = if peer.routingId.isEmpty then none else some peer.routingId := by
  simp only [localReadyProps]
  have : (keySocketType == keyIdentity) = false := by decide
  split <;> simp [lookupLast, this]

def readyBody (peer : Cfg) : Bytes :=
  UInt8.ofNat Gen.readyName.length :: Gen.readyName ++ encodeProps (localReadyProps peer)

theorem readyBytes_eq (peer : Cfg) : readyBytes peer = encodeCodec (cmdFrame (readyBody peer)) := rfl

theorem readyBody_length (peer : Cfg) : (readyBody peer).length = 6 + (encodeProps (localReadyProps peer)).length := by
  simp [readyBody, Gen.readyName]; omega

theorem localReadyProps_length (peer : Cfg) : (localReadyProps peer).length ≤ 2 := by
  simp only [localReadyProps]; split <;> simp

theorem parseCmd_readyBody (peer : Cfg) (h : peer.routingId.length ≤ 255) :
    parseCmd (readyBody peer) = some (.ready (localReadyProps peer)) := by
  have hl := readyBody_length peer
  have hp : parseProps ((readyBody peer).length + 1) (encodeProps (localReadyProps peer))
      = some (localReadyProps peer) :=
    parseProps_encode _ _ (by have := localReadyProps_length peer; omega) (localReadyProps_ok peer h)
  have hd : (readyBody peer).drop 6 = encodeProps (localReadyProps peer) := by
    simp [readyBody, Gen.readyName]
  have h1 : Gen.cmdPing.isPrefixOf (readyBody peer) = false := by
    simp [readyBody, Gen.readyName, Gen.cmdPing, List.isPrefixOf]
  have h2 : Gen.cmdPong.isPrefixOf (readyBody peer) = false := by
    simp [readyBody, Gen.readyName, Gen.cmdPong, List.isPrefixOf]
  have h3 : Gen.cmdReady.isPrefixOf (readyBody peer) = true := by
    simp [readyBody, Gen.readyName, Gen.cmdReady, List.isPrefixOf]
  simp only [parseCmd, h1, h2, h3, Gen.readyPropsOffset, hd, hp, Gen.cmdReadyMinLen]
  simp [hl]

def dat (acc : Bytes) : Eng :=
  { phase := .data, acc := acc, revisionSent := true, version := some .v3, mech := .null, gNegotiated := some .null }

theorem decode_ready (peer : Cfg) (r : Bytes) (hid : peer.routingId.length ≤ 255)
    (hadm : cfg.maxMsgSize < 0 ∨ 6 + (encodeProps (localReadyProps peer)).length ≤ cfg.maxMsgSize.toNat) :
    decodeBuffer (hsLimit cfg) (readyBytes peer ++ r) = .frame (cmdFrame (readyBody peer)) r := by
  rw [readyBytes_eq]
  have hl := readyBody_length peer
  have hb : (encodeProps (localReadyProps peer)).length ≤ 300 := by
    simp only [localReadyProps]
    split
    · simp [encodeProps, keySocketType, ascii, be32]
      cases peer.sockType <;> simp [SockName.bytes, ascii]
    · simp [encodeProps, keySocketType, keyIdentity, ascii, be32]
      cases peer.sockType <;> simp [SockName.bytes, ascii] <;> omega
  apply decodeBuffer_encode'
  · simp only [cmdFrame, hl, two64]; omega
  · simp only [cmdFrame, hl]; exact admits_hsLimit hadm

theorem step_ready_ok (peer : Cfg) (r : Bytes) (hid : peer.routingId.length ≤ 255)
    (hadm : cfg.maxMsgSize < 0 ∨ 6 + (encodeProps (localReadyProps peer)).length ≤ cfg.maxMsgSize.toNat)
    (hc : typesCompatible cfg.sockType peer.sockType = true) :
    step spec cfg 0 (rdy (readyBytes peer ++ r))
      = some (dat r, { net := (if cfg.isServer then [sendAct (readyBytes cfg)] else []) ++ corkOn cfg,
                       app := [handshakeOf peer] }) := by
  simp only [step, rdy, decode_ready peer r hid hadm, cmdFrame, parseCmd_readyBody peer hid,
    lookup_sockType, lookup_identity, ofBytes_bytes, hc, handshakeOf, dat]
  simp

theorem step_ready_bad (peer : Cfg) (r : Bytes) (hid : peer.routingId.length ≤ 255)
    (hadm : cfg.maxMsgSize < 0 ∨ 6 + (encodeProps (localReadyProps peer)).length ≤ cfg.maxMsgSize.toNat)
    (hc : typesCompatible cfg.sockType peer.sockType = false) :
    step spec cfg 0 (rdy (readyBytes peer ++ r)) = some (fail (rdy r) .proto) := by
  simp only [step, rdy, decode_ready peer r hid hadm, cmdFrame, parseCmd_readyBody peer hid,
    lookup_sockType, ofBytes_bytes, hc, Gen.v3ValidatesSocketType]
  simp

theorem step_ready_nil : step spec cfg 0 (rdy []) = none := by
  simp [step, rdy, decodeBuffer]

theorem step_dat_nil : step spec cfg 0 (dat []) = none := by
  simp [step, dat, decodeBuffer]

end Steps

-- ---------------------------------------------------------------------------------------------
-- reads: what one `onNetworkBytes` does at each stage of the handshake
-- ---------------------------------------------------------------------------------------------

section Stages
variable {spec : AbsSpec} {cfg : Cfg}

theorem onNB_step1 (hw : WellBehaved spec) {s : Eng} {d : Bytes} {s1 : Eng} {o1 : Out}
    (h1 : step spec cfg 0 (addAcc s d) = some (s1, o1)) (h2 : step spec cfg 0 s1 = none) :
    onNetworkBytes spec cfg 0 s d = (s1, o1) := by
  rw [onNetworkBytes_eq hw, runQ_some hw h1, runQ_none h2]; simp

theorem onNB_step2 (hw : WellBehaved spec) {s : Eng} {d : Bytes} {s1 s2 : Eng} {o1 o2 : Out}
    (h1 : step spec cfg 0 (addAcc s d) = some (s1, o1)) (h2 : step spec cfg 0 s1 = some (s2, o2))
    (h3 : step spec cfg 0 s2 = none) :
    onNetworkBytes spec cfg 0 s d = (s2, o1 ++ o2) := by
  rw [onNetworkBytes_eq hw, runQ_some hw h1, runQ_some hw h2, runQ_none h3]; simp

theorem v3Tail_eq (cfg : Cfg) : v3Tail cfg = tailOf (localMech cfg) cfg.isServer := rfl

/-- the greeting `cfg` puts on the wire -/
def ownGreet (cfg : Cfg) : Bytes := greetOf (localMech cfg) cfg.isServer

/-- the state after the peer's signature and revision byte -/
def g2 : Eng := gs true (some .v3) (Gen.SIGNATURE ++ [Gen.V3_REVISION])

theorem greetOf_split (k : MechKind) (srv : Bool) :
    greetOf k srv = (Gen.SIGNATURE ++ [Gen.V3_REVISION]) ++ tailOf k srv := by
  simp [greetOf]

theorem read_sig (hw : WellBehaved spec) :
    onNetworkBytes spec cfg 0 Eng.init Gen.SIGNATURE
      = (gs true none Gen.SIGNATURE, { net := [sendAct [Gen.V3_REVISION]] }) := by
  apply onNB_step1 hw (s1 := gs true none Gen.SIGNATURE)
  · have := step_g1 (spec := spec) (cfg := cfg) 0 []
    simpa [init_eq_gs, addAcc_gs] using this
  · exact step_g2_none 0

theorem read_rev (hw : WellBehaved spec) :
    onNetworkBytes spec cfg 0 (gs true none Gen.SIGNATURE) [Gen.V3_REVISION]
      = (g2, { net := [sendAct (v3Tail cfg)] }) := by
  apply onNB_step1 hw (s1 := g2)
  · exact step_g2 0 []
  · exact step_g3_none 0 _ (by decide)

theorem read_sig_rev (hw : WellBehaved spec) :
    onNetworkBytes spec cfg 0 Eng.init (Gen.SIGNATURE ++ [Gen.V3_REVISION])
      = (g2, { net := [sendAct [Gen.V3_REVISION], sendAct (v3Tail cfg)] }) := by
  rw [onNetworkBytes_append hw, read_sig hw, read_rev hw]
  rfl

theorem sendsOf_two (a b : Bytes) : sendsOf { net := [sendAct a, sendAct b] } = a ++ b := by
  simp [sendsOf, sendAct]

theorem sendsOf_one (a : Bytes) : sendsOf { net := [sendAct a] } = a := by
  simp [sendsOf, sendAct]

theorem sendsOf_app_only (l : List AppAct) : sendsOf { app := l } = [] := rfl

theorem emitted_sig (hw : WellBehaved spec) :
    emitted spec cfg Gen.SIGNATURE = Gen.SIGNATURE ++ [Gen.V3_REVISION] := by
  simp only [emitted, read_sig hw, sendsOf_one]

theorem emitted_sig_rev (hw : WellBehaved spec) :
    emitted spec cfg (Gen.SIGNATURE ++ [Gen.V3_REVISION]) = ownGreet cfg := by
  simp only [emitted, read_sig_rev hw, sendsOf_two, v3Tail_eq, ownGreet, greetOf]
  simp

theorem stOf_sig_rev (hw : WellBehaved spec) : stOf spec cfg (Gen.SIGNATURE ++ [Gen.V3_REVISION]) = g2 := by
  simp only [stOf, read_sig_rev hw]

theorem appOf_sig_rev (hw : WellBehaved spec) : appOf spec cfg (Gen.SIGNATURE ++ [Gen.V3_REVISION]) = [] := by
  simp only [appOf, read_sig_rev hw]

/-- every endpoint that has received everything the other emitted, and conversely, has the other's full greeting -/
theorem fix_greet (hw : WellBehaved spec) {cfgA cfgB : Cfg} {x y : Bytes}
    (hx : x = emitted spec cfgB y) (hy : y = emitted spec cfgA x) :
    ownGreet cfgB <+: x ∧ ownGreet cfgA <+: y := by
  have sx : Gen.SIGNATURE <+: x := hx ▸ sig_prefix_emitted _
  have sy : Gen.SIGNATURE <+: y := hy ▸ sig_prefix_emitted _
  have rx : Gen.SIGNATURE ++ [Gen.V3_REVISION] <+: x := by
    have := emitted_mono' (cfg := cfgB) hw sy
    rwa [emitted_sig hw, ← hx] at this
  have ry : Gen.SIGNATURE ++ [Gen.V3_REVISION] <+: y := by
    have := emitted_mono' (cfg := cfgA) hw sx
    rwa [emitted_sig hw, ← hy] at this
  constructor
  · have := emitted_mono' (cfg := cfgB) hw ry
    rwa [emitted_sig_rev hw, ← hx] at this
  · have := emitted_mono' (cfg := cfgA) hw rx
    rwa [emitted_sig_rev hw, ← hy] at this

/-- splitting a read at the end of the peer's signature + revision -/
theorem read_greet_split (hw : WellBehaved spec) (k : MechKind) (srv : Bool) (r : Bytes) :
    onNetworkBytes spec cfg 0 Eng.init (greetOf k srv ++ r)
      = ((onNetworkBytes spec cfg 0 g2 (tailOf k srv ++ r)).1,
         { net := [sendAct [Gen.V3_REVISION], sendAct (v3Tail cfg)] }
           ++ (onNetworkBytes spec cfg 0 g2 (tailOf k srv ++ r)).2) := by
  rw [greetOf_split, List.append_assoc, onNetworkBytes_append hw, read_sig_rev hw]

theorem addAcc_g2 (k : MechKind) (srv : Bool) (r : Bytes) :
    addAcc g2 (tailOf k srv ++ r) = gs true (some .v3) (greetOf k srv ++ r) := by
  simp [g2, addAcc_gs, greetOf]

-- NULL ------------------------------------------------------------------------------------------

theorem read_tail_null (hw : WellBehaved spec) (srv : Bool) (h : cfg.securityEnabled = false) :
    onNetworkBytes spec cfg 0 g2 (tailOf .null srv)
      = (rdy [], { net := if cfg.isServer then [] else [sendAct (readyBytes cfg)] }) := by
  apply onNB_step1 hw (s1 := rdy [])
  · have := addAcc_g2 .null srv []
    simp only [List.append_nil] at this
    rw [this]
    have := step_g3_null (spec := spec) (cfg := cfg) 0 srv [] h
    rwa [List.append_nil] at this
  · exact step_ready_nil

theorem read_ready_ok (hw : WellBehaved spec) (peer : Cfg) (hid : peer.routingId.length ≤ 255)
    (hadm : cfg.maxMsgSize < 0 ∨ 6 + (encodeProps (localReadyProps peer)).length ≤ cfg.maxMsgSize.toNat)
    (hc : typesCompatible cfg.sockType peer.sockType = true) :
    onNetworkBytes spec cfg 0 (rdy []) (readyBytes peer)
      = (dat [], { net := (if cfg.isServer then [sendAct (readyBytes cfg)] else []) ++ corkOn cfg,
                   app := [handshakeOf peer] }) := by
  apply onNB_step1 hw (s1 := dat [])
  · have := step_ready_ok (spec := spec) (cfg := cfg) peer [] hid hadm hc
    rw [List.append_nil] at this
    exact this
  · exact step_dat_nil

theorem read_ready_bad (hw : WellBehaved spec) (peer : Cfg) (hid : peer.routingId.length ≤ 255)
    (hadm : cfg.maxMsgSize < 0 ∨ 6 + (encodeProps (localReadyProps peer)).length ≤ cfg.maxMsgSize.toNat)
    (hc : typesCompatible cfg.sockType peer.sockType = false) :
    onNetworkBytes spec cfg 0 (rdy []) (readyBytes peer) = fail (rdy []) .proto := by
  apply onNB_step1 hw
  · have := step_ready_bad (spec := spec) (cfg := cfg) peer [] hid hadm hc
    rw [List.append_nil] at this
    exact this
  · exact step_closed rfl

end Stages

-- ---------------------------------------------------------------------------------------------
-- NULL endpoints: responses to the peer's greeting and READY
-- ---------------------------------------------------------------------------------------------

section Null
variable {spec : AbsSpec} {cfg : Cfg}

theorem localMech_null (h : NullCfg cfg) : localMech cfg = .null := by
  obtain ⟨_, h2, h3, h4⟩ := h
  simp [localMech, Gen.localMechPriority, mechEnabled, h2, h3, h4]

theorem localMech_plain (h : PlainCfg cfg) : localMech cfg = .plain := by
  obtain ⟨_, h2, _, _⟩ := h
  simp [localMech, Gen.localMechPriority, mechEnabled, h2]

theorem ownGreet_null (h : NullCfg cfg) : ownGreet cfg = greetOf .null cfg.isServer := by
  rw [ownGreet, localMech_null h]

theorem ownGreet_plain (h : PlainCfg cfg) : ownGreet cfg = greetOf .plain cfg.isServer := by
  rw [ownGreet, localMech_plain h]

theorem sendsOf_greet_pref (cfg : Cfg) (o : Out) :
    Gen.SIGNATURE ++ sendsOf (({ net := [sendAct [Gen.V3_REVISION], sendAct (v3Tail cfg)] } : Out) ++ o)
      = ownGreet cfg ++ sendsOf o := by
  rw [sendsOf_append, sendsOf_two, v3Tail_eq, ownGreet, greetOf]
  simp

/-- everything about the response to `greeting ++ r` in terms of the response of `g2` to `tail ++ r` -/
theorem emitted_greet_split (hw : WellBehaved spec) (k : MechKind) (srv : Bool) (r : Bytes) :
    emitted spec cfg (greetOf k srv ++ r)
      = ownGreet cfg ++ sendsOf (onNetworkBytes spec cfg 0 g2 (tailOf k srv ++ r)).2 := by
  rw [emitted, read_greet_split hw, sendsOf_greet_pref]

theorem stOf_greet_split (hw : WellBehaved spec) (k : MechKind) (srv : Bool) (r : Bytes) :
    stOf spec cfg (greetOf k srv ++ r) = (onNetworkBytes spec cfg 0 g2 (tailOf k srv ++ r)).1 := by
  rw [stOf, read_greet_split hw]

theorem appOf_greet_split (hw : WellBehaved spec) (k : MechKind) (srv : Bool) (r : Bytes) :
    appOf spec cfg (greetOf k srv ++ r) = (onNetworkBytes spec cfg 0 g2 (tailOf k srv ++ r)).2.app := by
  rw [appOf, read_greet_split hw]
  rfl

theorem stOf_greet_null (hw : WellBehaved spec) (srv : Bool) (h : NullCfg cfg) :
    stOf spec cfg (greetOf .null srv) = rdy [] := by
  have := stOf_greet_split (spec := spec) (cfg := cfg) hw .null srv []
  rw [List.append_nil, List.append_nil, read_tail_null hw srv h.1] at this
  exact this

theorem emitted_greet_null (hw : WellBehaved spec) (srv : Bool) (h : NullCfg cfg) :
    emitted spec cfg (greetOf .null srv) = ownGreet cfg ++ (if cfg.isServer then [] else readyBytes cfg) := by
  have := emitted_greet_split (spec := spec) (cfg := cfg) hw .null srv []
  rw [List.append_nil, List.append_nil, read_tail_null hw srv h.1] at this
  rw [this]
  cases cfg.isServer <;> simp [sendsOf, sendAct]

theorem appOf_greet_null (hw : WellBehaved spec) (srv : Bool) (h : NullCfg cfg) :
    appOf spec cfg (greetOf .null srv) = [] := by
  have := appOf_greet_split (spec := spec) (cfg := cfg) hw .null srv []
  rw [List.append_nil, List.append_nil, read_tail_null hw srv h.1] at this
  exact this

/-- the full transcript of a NULL endpoint in a successful handshake -/
def nullFull (cfg : Cfg) : Bytes := ownGreet cfg ++ readyBytes cfg

def Adm (sender receiver : Cfg) : Prop :=
  sender.routingId.length ≤ 255 ∧
  (receiver.maxMsgSize < 0 ∨ 6 + (encodeProps (localReadyProps sender)).length ≤ receiver.maxMsgSize.toNat)

theorem sendsOf_ready_out (cfg : Cfg) (l : List AppAct) :
    sendsOf { net := (if cfg.isServer then [sendAct (readyBytes cfg)] else []) ++ corkOn cfg, app := l }
      = if cfg.isServer then readyBytes cfg else [] := by
  have hc : sendsOf { net := corkOn cfg } = [] := by
    unfold corkOn; split <;> rfl
  have happ : ∀ (a b : List NetAct) (l : List AppAct),
      sendsOf { net := a ++ b, app := l } = sendsOf { net := a } ++ sendsOf { net := b } := by
    intro a b l; simp [sendsOf]
  rw [happ, hc, List.append_nil]
  cases cfg.isServer
  · rfl
  · exact sendsOf_one _

theorem stOf_full_ok (hw : WellBehaved spec) (peer : Cfg) (h : NullCfg cfg) (ha : Adm peer cfg)
    (hc : typesCompatible cfg.sockType peer.sockType = true) :
    stOf spec cfg (greetOf .null peer.isServer ++ readyBytes peer) = dat [] := by
  rw [stOf_append hw, stOf_greet_null hw _ h, read_ready_ok hw peer ha.1 ha.2 hc]

theorem emitted_full_ok (hw : WellBehaved spec) (peer : Cfg) (h : NullCfg cfg) (ha : Adm peer cfg)
    (hc : typesCompatible cfg.sockType peer.sockType = true) :
    emitted spec cfg (greetOf .null peer.isServer ++ readyBytes peer) = nullFull cfg := by
  rw [emitted_append hw, stOf_greet_null hw _ h, emitted_greet_null hw _ h, read_ready_ok hw peer ha.1 ha.2 hc,
    sendsOf_ready_out, nullFull]
  cases cfg.isServer <;> simp

theorem appOf_full_ok (hw : WellBehaved spec) (peer : Cfg) (h : NullCfg cfg) (ha : Adm peer cfg)
    (hc : typesCompatible cfg.sockType peer.sockType = true) :
    appOf spec cfg (greetOf .null peer.isServer ++ readyBytes peer) = [handshakeOf peer] := by
  rw [appOf_append hw, stOf_greet_null hw _ h, appOf_greet_null hw _ h, read_ready_ok hw peer ha.1 ha.2 hc]
  rfl

theorem stOf_full_bad (hw : WellBehaved spec) (peer : Cfg) (h : NullCfg cfg) (ha : Adm peer cfg)
    (hc : typesCompatible cfg.sockType peer.sockType = false) :
    (stOf spec cfg (greetOf .null peer.isServer ++ readyBytes peer)).phase = .closed := by
  rw [stOf_append hw, stOf_greet_null hw _ h, read_ready_bad hw peer ha.1 ha.2 hc]
  rfl

theorem emitted_full_bad (hw : WellBehaved spec) (peer : Cfg) (h : NullCfg cfg) (ha : Adm peer cfg)
    (hc : typesCompatible cfg.sockType peer.sockType = false) :
    emitted spec cfg (greetOf .null peer.isServer ++ readyBytes peer)
      = ownGreet cfg ++ (if cfg.isServer then [] else readyBytes cfg) := by
  rw [emitted_append hw, stOf_greet_null hw _ h, emitted_greet_null hw _ h, read_ready_bad hw peer ha.1 ha.2 hc]
  simp [fail, sendsOf]

theorem appOf_full_bad (hw : WellBehaved spec) (peer : Cfg) (h : NullCfg cfg) (ha : Adm peer cfg)
    (hc : typesCompatible cfg.sockType peer.sockType = false) :
    appOf spec cfg (greetOf .null peer.isServer ++ readyBytes peer) = [.peerError .proto] := by
  rw [appOf_append hw, stOf_greet_null hw _ h, appOf_greet_null hw _ h, read_ready_bad hw peer ha.1 ha.2 hc]
  rfl

theorem typesCompatible_symm (x y : SockName) : typesCompatible x y = typesCompatible y x := by
  cases x <;> cases y <;> decide

end Null

-- ---------------------------------------------------------------------------------------------
-- NULL/NULL: the only complete exchange is the pair of full transcripts
-- ---------------------------------------------------------------------------------------------

section Converge
variable {spec : AbsSpec} {cfgA cfgB : Cfg}

theorem null_fixpoint (hw : WellBehaved spec) (hA : NullCfg cfgA) (hB : NullCfg cfgB)
    (hrole : cfgA.isServer = !cfgB.isServer)
    (hcompat : typesCompatible cfgA.sockType cfgB.sockType = true)
    (hrA : Adm cfgA cfgB) (hrB : Adm cfgB cfgA) {x y : Bytes}
    (hx : x = emitted spec cfgB y) (hy : y = emitted spec cfgA x)
    (bx : x <+: nullFull cfgB) (by' : y <+: nullFull cfgA) :
    x = nullFull cfgB ∧ y = nullFull cfgA := by
  have hcB : typesCompatible cfgB.sockType cfgA.sockType = true := by
    rw [typesCompatible_symm]; exact hcompat
  have hFA : emitted spec cfgA (nullFull cfgB) = nullFull cfgA := by
    rw [nullFull, ownGreet_null hB]; exact emitted_full_ok hw cfgB hA hrB hcompat
  have hFB : emitted spec cfgB (nullFull cfgA) = nullFull cfgB := by
    rw [nullFull, ownGreet_null hA]; exact emitted_full_ok hw cfgA hB hrA hcB
  obtain ⟨gx, gy⟩ := fix_greet hw hx hy
  cases hs : cfgA.isServer with
  | false =>
    have h1 : nullFull cfgA <+: y := by
      have := emitted_mono' (cfg := cfgA) hw gx
      rw [ownGreet_null hB, emitted_greet_null hw _ hA, hs, ← hy] at this
      exact this
    have ey : y = nullFull cfgA := prefix_antisymm' by' h1
    refine ⟨?_, ey⟩
    rw [hx, ey, hFB]
  | true =>
    have hsB : cfgB.isServer = false := by
      rw [hs] at hrole
      cases h : cfgB.isServer with
      | false => rfl
      | true => rw [h] at hrole; cases hrole
    have h1 : nullFull cfgB <+: x := by
      have := emitted_mono' (cfg := cfgB) hw gy
      rw [ownGreet_null hA, emitted_greet_null hw _ hB, hsB, ← hx] at this
      exact this
    have ex : x = nullFull cfgB := prefix_antisymm' bx h1
    refine ⟨ex, ?_⟩
    rw [hy, ex, hFA]

theorem null_converges (hw : WellBehaved spec) (hA : NullCfg cfgA) (hB : NullCfg cfgB)
    (hrole : cfgA.isServer = !cfgB.isServer)
    (hcompat : typesCompatible cfgA.sockType cfgB.sockType = true)
    (hrA : Adm cfgA cfgB) (hrB : Adm cfgB cfgA)
    (s : List Move) (hne : ∀ m ∈ s, m ≠ .eofA ∧ m ≠ .eofB)
    (hq : (Pair.run spec cfgA cfgB Pair.start s).ab = [] ∧ (Pair.run spec cfgA cfgB Pair.start s).ba = []) :
    (Pair.run spec cfgA cfgB Pair.start s).a = dat [] ∧ (Pair.run spec cfgA cfgB Pair.start s).b = dat []
    ∧ (Pair.run spec cfgA cfgB Pair.start s).appA = [handshakeOf cfgB]
    ∧ (Pair.run spec cfgA cfgB Pair.start s).appB = [handshakeOf cfgA] := by
  have hcB : typesCompatible cfgB.sockType cfgA.sockType = true := by
    rw [typesCompatible_symm]; exact hcompat
  have hFA : emitted spec cfgA (nullFull cfgB) = nullFull cfgA := by
    rw [nullFull, ownGreet_null hB]; exact emitted_full_ok hw cfgB hA hrB hcompat
  have hFB : emitted spec cfgB (nullFull cfgA) = nullFull cfgB := by
    rw [nullFull, ownGreet_null hA]; exact emitted_full_ok hw cfgA hB hrA hcB
  have q := PSD.of_start (cfgA := cfgA) (cfgB := cfgB) hw s hne
  obtain ⟨_, _, -, bd⟩ := GI.of_start (cfgA := cfgA) (cfgB := cfgB) hw (FA := nullFull cfgA) (FB := nullFull cfgB)
    (by rw [hFA]; exact List.prefix_refl _) (by rw [hFB]; exact List.prefix_refl _) s
  have eA := q.emA; have eB := q.emB
  unfold Bd at bd
  rw [hq.1, List.append_nil] at eA bd
  rw [hq.2, List.append_nil] at eB bd
  obtain ⟨ex, ey⟩ := null_fixpoint hw hA hB hrole hcompat hrA hrB eB eA bd.1 bd.2
  refine ⟨?_, ?_, ?_, ?_⟩
  · rw [q.stA, ex, nullFull, ownGreet_null hB]; exact stOf_full_ok hw cfgB hA hrB hcompat
  · rw [q.stB, ey, nullFull, ownGreet_null hA]; exact stOf_full_ok hw cfgA hB hrA hcB
  · rw [q.appA, ex, nullFull, ownGreet_null hB]; exact appOf_full_ok hw cfgB hA hrB hcompat
  · rw [q.appB, ey, nullFull, ownGreet_null hA]; exact appOf_full_ok hw cfgA hB hrA hcB

end Converge

-- ---------------------------------------------------------------------------------------------
-- failing handshakes: generic assembly
-- ---------------------------------------------------------------------------------------------

section FailAssembly
variable {spec : AbsSpec} {cfgA cfgB : Cfg}

def NoHC (l : List AppAct) : Prop := ∀ x ∈ l, isHandshakeComplete x = false

theorem NoHC.of_prefix {l m : List AppAct} (h : l <+: m) (hm : NoHC m) : NoHC l :=
  fun x hx => hm x (h.subset hx)

/-- `FA`/`FB` bound what the two endpoints can ever emit; within these transcripts nobody completes, and a
complete exchange leaves at least one endpoint closed by an error: then every settled schedule ends with both
closed and no `HandshakeComplete`. -/
theorem fail_assembly (hw : WellBehaved spec) {FA FB : Bytes}
    (hFA : emitted spec cfgA FB <+: FA) (hFB : emitted spec cfgB FA <+: FB)
    (hnA : NoHC (appOf spec cfgA FB)) (hnB : NoHC (appOf spec cfgB FA))
    (hfix : ∀ x y, x = emitted spec cfgB y → y = emitted spec cfgA x → x <+: FB → y <+: FA →
      (stOf spec cfgA x).phase = .closed ∨ (stOf spec cfgB y).phase = .closed)
    (s : List Move) (hq : (Pair.run spec cfgA cfgB Pair.start s).Settled) :
    (Pair.run spec cfgA cfgB Pair.start s).a.phase = .closed
    ∧ (Pair.run spec cfgA cfgB Pair.start s).b.phase = .closed
    ∧ NoHC (Pair.run spec cfgA cfgB Pair.start s).appA ∧ NoHC (Pair.run spec cfgA cfgB Pair.start s).appB := by
  obtain ⟨rA, rB, gi, bd⟩ := GI.of_start (cfgA := cfgA) (cfgB := cfgB) hw hFA hFB s
  obtain ⟨hab, hba, hAB, hBA⟩ := hq
  generalize Pair.run spec cfgA cfgB Pair.start s = p at *
  have pA : rA <+: FB := gi.preA.trans ((List.prefix_append _ _).trans bd.1)
  have pB : rB <+: FA := gi.preB.trans ((List.prefix_append _ _).trans bd.2)
  have nA : NoHC p.appA := by
    rw [gi.appA]; exact NoHC.of_prefix (appOf_mono hw pA) hnA
  have nB : NoHC p.appB := by
    rw [gi.appB]; exact NoHC.of_prefix (appOf_mono hw pB) hnB
  have hcl : p.a.phase = .closed ∧ p.b.phase = .closed := by
    rcases gi.liveA with ca | ⟨ra, sa⟩
    · exact ⟨ca, hAB ca⟩
    · rcases gi.liveB with cb | ⟨rb, sb⟩
      · exact ⟨hBA cb, cb⟩
      · have eA := gi.emA; have eB := gi.emB
        have b1 := bd.1; have b2 := bd.2
        rw [hab, List.append_nil] at eA b2
        rw [hba, List.append_nil] at eB b1
        subst ra; subst rb
        rcases hfix p.recvA p.recvB eB eA b1 b2 with h | h
        · rw [← sa] at h; exact ⟨h, hAB h⟩
        · rw [← sb] at h; exact ⟨hBA h, h⟩
  exact ⟨hcl.1, hcl.2, nA, nB⟩

end FailAssembly

-- ---------------------------------------------------------------------------------------------
-- mechanism mismatch
-- ---------------------------------------------------------------------------------------------

section Mismatch
variable {spec : AbsSpec} {cfg : Cfg}

theorem read_tail_mismatch (hw : WellBehaved spec) (k : MechKind) (srv : Bool) (h : mechEnabled cfg k = false) :
    onNetworkBytes spec cfg 0 g2 (tailOf k srv) = fail (gs true (some .v3) []) .sec := by
  apply onNB_step1 hw
  · have := addAcc_g2 k srv []
    simp only [List.append_nil] at this
    rw [this]
    have := step_g3_mismatch (spec := spec) (cfg := cfg) 0 k srv [] h
    rwa [List.append_nil] at this
  · exact step_closed rfl

theorem stOf_greet_mismatch (hw : WellBehaved spec) (k : MechKind) (srv : Bool) (h : mechEnabled cfg k = false) :
    (stOf spec cfg (greetOf k srv)).phase = .closed := by
  have := stOf_greet_split (spec := spec) (cfg := cfg) hw k srv []
  rw [List.append_nil, List.append_nil, read_tail_mismatch hw k srv h] at this
  rw [this]; rfl

theorem emitted_greet_mismatch (hw : WellBehaved spec) (k : MechKind) (srv : Bool) (h : mechEnabled cfg k = false) :
    emitted spec cfg (greetOf k srv) = ownGreet cfg := by
  have := emitted_greet_split (spec := spec) (cfg := cfg) hw k srv []
  rw [List.append_nil, List.append_nil, read_tail_mismatch hw k srv h] at this
  rw [this]; simp [fail, sendsOf]

theorem appOf_greet_mismatch (hw : WellBehaved spec) (k : MechKind) (srv : Bool) (h : mechEnabled cfg k = false) :
    appOf spec cfg (greetOf k srv) = [.peerError .sec] := by
  have := appOf_greet_split (spec := spec) (cfg := cfg) hw k srv []
  rw [List.append_nil, List.append_nil, read_tail_mismatch hw k srv h] at this
  rw [this]; rfl

theorem noHC_peerError (e : ErrClass) : NoHC [.peerError e] := by
  intro x hx; rw [List.mem_singleton] at hx; subst hx; rfl

theorem noHC_nil : NoHC [] := fun _ h => absurd h (List.not_mem_nil)

theorem mismatch_both_fail (hw : WellBehaved spec) {cfgA cfgB : Cfg} (hA : NullCfg cfgA) (hB : PlainCfg cfgB)
    (s : List Move) (hq : (Pair.run spec cfgA cfgB Pair.start s).Settled) :
    (Pair.run spec cfgA cfgB Pair.start s).a.phase = .closed
    ∧ (Pair.run spec cfgA cfgB Pair.start s).b.phase = .closed
    ∧ NoHC (Pair.run spec cfgA cfgB Pair.start s).appA ∧ NoHC (Pair.run spec cfgA cfgB Pair.start s).appB := by
  have eA : mechEnabled cfgA .plain = false := hA.2.1
  have eB : mechEnabled cfgB .null = false := by simp [mechEnabled, hB.1]
  have gA := ownGreet_null hA
  have gB := ownGreet_plain hB
  apply fail_assembly hw (FA := ownGreet cfgA) (FB := ownGreet cfgB)
  · rw [gB, emitted_greet_mismatch hw _ _ eA]; exact List.prefix_refl _
  · rw [gA, emitted_greet_mismatch hw _ _ eB]; exact List.prefix_refl _
  · rw [gB, appOf_greet_mismatch hw _ _ eA]; exact noHC_peerError _
  · rw [gA, appOf_greet_mismatch hw _ _ eB]; exact noHC_peerError _
  · intro x y hx hy _ _
    obtain ⟨gx, _⟩ := fix_greet hw hx hy
    left
    rw [gB] at gx
    exact stOf_closed_mono hw gx (stOf_greet_mismatch hw _ _ eA)
  · exact hq

end Mismatch

-- ---------------------------------------------------------------------------------------------
-- incompatible socket types
-- ---------------------------------------------------------------------------------------------

section Incompat
variable {spec : AbsSpec}

theorem incompat_both_fail (hw : WellBehaved spec) {cfgA cfgB : Cfg} (hA : NullCfg cfgA) (hB : NullCfg cfgB)
    (hrole : cfgA.isServer = !cfgB.isServer)
    (hcompat : typesCompatible cfgA.sockType cfgB.sockType = false)
    (hrA : Adm cfgA cfgB) (hrB : Adm cfgB cfgA)
    (s : List Move) (hq : (Pair.run spec cfgA cfgB Pair.start s).Settled) :
    (Pair.run spec cfgA cfgB Pair.start s).a.phase = .closed
    ∧ (Pair.run spec cfgA cfgB Pair.start s).b.phase = .closed
    ∧ NoHC (Pair.run spec cfgA cfgB Pair.start s).appA ∧ NoHC (Pair.run spec cfgA cfgB Pair.start s).appB := by
  have hcB : typesCompatible cfgB.sockType cfgA.sockType = false := by
    rw [typesCompatible_symm]; exact hcompat
  have gA := ownGreet_null hA
  have gB := ownGreet_null hB
  cases hs : cfgA.isServer with
  | false =>
    -- A connects, B listens: B rejects A's READY
    have hsB : cfgB.isServer = true := by
      rw [hs] at hrole
      cases h : cfgB.isServer with
      | true => rfl
      | false => rw [h] at hrole; cases hrole
    have e1 : emitted spec cfgA (ownGreet cfgB) = nullFull cfgA := by
      rw [gB, emitted_greet_null hw _ hA, hs]; rfl
    have e2 : emitted spec cfgB (nullFull cfgA) = ownGreet cfgB := by
      rw [nullFull, gA, emitted_full_bad hw cfgA hB hrA hcB, hsB]; simp
    apply fail_assembly hw (FA := nullFull cfgA) (FB := ownGreet cfgB)
    · rw [e1]; exact List.prefix_refl _
    · rw [e2]; exact List.prefix_refl _
    · rw [gB, appOf_greet_null hw _ hA]; exact noHC_nil
    · rw [nullFull, gA, appOf_full_bad hw cfgA hB hrA hcB]; exact noHC_peerError _
    · intro x y hx hy _ _
      obtain ⟨gx, _⟩ := fix_greet hw hx hy
      right
      have h1 : nullFull cfgA <+: y := by
        have := emitted_mono' (cfg := cfgA) hw gx
        rwa [e1, ← hy] at this
      refine stOf_closed_mono hw h1 ?_
      rw [nullFull, gA]; exact stOf_full_bad hw cfgA hB hrA hcB
    · exact hq
  | true =>
    have hsB : cfgB.isServer = false := by
      rw [hs] at hrole
      cases h : cfgB.isServer with
      | false => rfl
      | true => rw [h] at hrole; cases hrole
    have e1 : emitted spec cfgB (ownGreet cfgA) = nullFull cfgB := by
      rw [gA, emitted_greet_null hw _ hB, hsB]; rfl
    have e2 : emitted spec cfgA (nullFull cfgB) = ownGreet cfgA := by
      rw [nullFull, gB, emitted_full_bad hw cfgB hA hrB hcompat, hs]; simp
    apply fail_assembly hw (FA := ownGreet cfgA) (FB := nullFull cfgB)
    · rw [e2]; exact List.prefix_refl _
    · rw [e1]; exact List.prefix_refl _
    · rw [nullFull, gB, appOf_full_bad hw cfgB hA hrB hcompat]; exact noHC_peerError _
    · rw [gA, appOf_greet_null hw _ hB]; exact noHC_nil
    · intro x y hx hy _ _
      obtain ⟨_, gy⟩ := fix_greet hw hx hy
      left
      have h1 : nullFull cfgB <+: x := by
        have := emitted_mono' (cfg := cfgB) hw gy
        rwa [e1, ← hx] at this
      refine stOf_closed_mono hw h1 ?_
      rw [nullFull, gB]; exact stOf_full_bad hw cfgB hA hrB hcompat
    · exact hq

end Incompat

-- ---------------------------------------------------------------------------------------------
-- PLAIN with wrong credentials
-- ---------------------------------------------------------------------------------------------

section Plain
variable {spec : AbsSpec} {cfg : Cfg}

theorem read_tail_plain_cli (hw : WellBehaved spec) (srv : Bool) (h : cfg.usePlain = true)
    (hs : cfg.isServer = false) :
    onNetworkBytes spec cfg 0 g2 (tailOf .plain srv)
      = (secS .clientExpectWelcome [], { net := [sendAct (helloBytes cfg)] }) := by
  have h2 := onNB_step2 (spec := spec) (cfg := cfg) hw (s := g2) (d := tailOf .plain srv)
    (s1 := secS .clientSendHello []) (o1 := {}) (s2 := secS .clientExpectWelcome [])
    (o2 := { net := [sendAct (helloBytes cfg)] }) ?_ (step_sec_cli_hello 0 []) (step_sec_cli_wait 0)
  · rw [h2]; simp
  · have := addAcc_g2 .plain srv []
    simp only [List.append_nil] at this
    rw [this]
    have := step_g3_plain_cli (spec := spec) (cfg := cfg) 0 srv [] h hs
    rwa [List.append_nil] at this

theorem read_tail_plain_srv (hw : WellBehaved spec) (srv : Bool) (h : cfg.usePlain = true)
    (hs : cfg.isServer = true) :
    onNetworkBytes spec cfg 0 g2 (tailOf .plain srv) = (secS .serverExpectHello [], {}) := by
  apply onNB_step1 hw
  · have := addAcc_g2 .plain srv []
    simp only [List.append_nil] at this
    rw [this]
    have := step_g3_plain_srv (spec := spec) (cfg := cfg) 0 srv [] h hs
    rwa [List.append_nil] at this
  · exact step_sec_srv_wait 0

theorem read_hello_bad (hw : WellBehaved spec) (peer : Cfg) (hs : cfg.isServer = true) (hmax : cfg.maxMsgSize < 0)
    (hu : (peer.plainUser.getD []).length ≤ 255) (hp : (peer.plainPass.getD []).length ≤ 255)
    (hwrong : cfg.plainUser ≠ some (peer.plainUser.getD []) ∨ cfg.plainPass ≠ some (peer.plainPass.getD [])) :
    onNetworkBytes spec cfg 0 (secS .serverExpectHello []) (helloBytes peer)
      = fail (secS .serverExpectHello []) .auth := by
  apply onNB_step1 hw
  · have := step_sec_srv_bad (spec := spec) (cfg := cfg) 0 peer [] hs hmax hu hp hwrong
    rw [List.append_nil] at this
    exact this
  · exact step_closed rfl

theorem creds_both_fail (hw : WellBehaved spec) {cfgA cfgB : Cfg}
    (hA : PlainCfg cfgA) (hB : PlainCfg cfgB) (hcl : cfgA.isServer = false) (hsrv : cfgB.isServer = true)
    (hu : (cfgA.plainUser.getD []).length ≤ 255) (hp : (cfgA.plainPass.getD []).length ≤ 255)
    (hwrong : cfgB.plainUser ≠ some (cfgA.plainUser.getD []) ∨ cfgB.plainPass ≠ some (cfgA.plainPass.getD []))
    (hmax : cfgB.maxMsgSize < 0)
    (s : List Move) (hq : (Pair.run spec cfgA cfgB Pair.start s).Settled) :
    (Pair.run spec cfgA cfgB Pair.start s).a.phase = .closed
    ∧ (Pair.run spec cfgA cfgB Pair.start s).b.phase = .closed
    ∧ NoHC (Pair.run spec cfgA cfgB Pair.start s).appA ∧ NoHC (Pair.run spec cfgA cfgB Pair.start s).appB := by
  have gA := ownGreet_plain hA
  have gB := ownGreet_plain hB
  -- A's response to B's greeting
  have rA := read_tail_plain_cli (spec := spec) (cfg := cfgA) hw cfgB.isServer hA.2.1 hcl
  have e1 : emitted spec cfgA (ownGreet cfgB) = ownGreet cfgA ++ helloBytes cfgA := by
    have := emitted_greet_split (spec := spec) (cfg := cfgA) hw .plain cfgB.isServer []
    rw [List.append_nil, List.append_nil, rA, sendsOf_one] at this
    rw [gB]; exact this
  have a1 : appOf spec cfgA (ownGreet cfgB) = [] := by
    have := appOf_greet_split (spec := spec) (cfg := cfgA) hw .plain cfgB.isServer []
    rw [List.append_nil, List.append_nil, rA] at this
    rw [gB]; exact this
  -- B's response to A's greeting and HELLO
  have rB := read_tail_plain_srv (spec := spec) (cfg := cfgB) hw cfgA.isServer hB.2.1 hsrv
  have sB : stOf spec cfgB (ownGreet cfgA) = secS .serverExpectHello [] := by
    have := stOf_greet_split (spec := spec) (cfg := cfgB) hw .plain cfgA.isServer []
    rw [List.append_nil, List.append_nil, rB] at this
    rw [gA]; exact this
  have eB0 : emitted spec cfgB (ownGreet cfgA) = ownGreet cfgB := by
    have := emitted_greet_split (spec := spec) (cfg := cfgB) hw .plain cfgA.isServer []
    rw [List.append_nil, List.append_nil, rB] at this
    rw [gA, this]; simp
  have aB0 : appOf spec cfgB (ownGreet cfgA) = [] := by
    have := appOf_greet_split (spec := spec) (cfg := cfgB) hw .plain cfgA.isServer []
    rw [List.append_nil, List.append_nil, rB] at this
    rw [gA]; exact this
  have rH := read_hello_bad (spec := spec) (cfg := cfgB) hw cfgA hsrv hmax hu hp hwrong
  have e2 : emitted spec cfgB (ownGreet cfgA ++ helloBytes cfgA) = ownGreet cfgB := by
    rw [emitted_append hw, sB, rH, eB0]; simp [fail, sendsOf]
  have a2 : appOf spec cfgB (ownGreet cfgA ++ helloBytes cfgA) = [.peerError .auth] := by
    rw [appOf_append hw, sB, rH, aB0]; rfl
  have s2 : (stOf spec cfgB (ownGreet cfgA ++ helloBytes cfgA)).phase = .closed := by
    rw [stOf_append hw, sB, rH]; rfl
  apply fail_assembly hw (FA := ownGreet cfgA ++ helloBytes cfgA) (FB := ownGreet cfgB)
  · rw [e1]; exact List.prefix_refl _
  · rw [e2]; exact List.prefix_refl _
  · rw [a1]; exact noHC_nil
  · rw [a2]; exact noHC_peerError _
  · intro x y hx hy _ _
    obtain ⟨gx, _⟩ := fix_greet hw hx hy
    right
    have h1 : ownGreet cfgA ++ helloBytes cfgA <+: y := by
      have := emitted_mono' (cfg := cfgA) hw gx
      rwa [e1, ← hy] at this
    exact stOf_closed_mono hw h1 s2
  · exact hq

end Plain

end Rzmq
