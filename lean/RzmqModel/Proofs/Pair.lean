import RzmqModel.Model.Pair
import RzmqModel.Proofs.EngineRun
/-! Helper lemmas for the pair system (C05). -/
namespace Rzmq

end Rzmq
