import RzmqModel.Model.Multipart
import RzmqModel.Model.Engine
import RzmqModel.Proofs.EngineSec
/-!
Helper lemmas for C02 (multipart messages stay whole):
* sender: `normaliseMore` through `getElem`, `WholeMsg` characterisations;
* receiving socket: `StashInv` (queues hold whole messages, the stash is the rest of one message, frames returned
  followed by the stash are the taken messages, `recv_multipart` results end a message) and `FifoInv` (per-pipe FIFO),
  both lifted through `Stash.step` / `Stash.run`;
* receiving session: `MpInv` (all frames of `partialBatch` carry MORE; every delivered message is whole and within the
  limit), lifted through `step` → `feedAll` with `feedAll_inv` of `Proofs.EngineSec`.
-/
namespace Rzmq

-- sender / WholeMsg ------------------------------------------------------------------------------


theorem wholeMsg_cons (f : Frame) (rest : List Frame) :
    WholeMsg (f :: rest) ↔ (rest = [] ∧ f.more = false) ∨ (rest ≠ [] ∧ f.more = true ∧ WholeMsg rest) := by
  cases rest with
  | nil => simp [WholeMsg]
  | cons g r => simp [WholeMsg, List.getLast?_cons_cons, and_assoc]

theorem wholeMsg_snoc {pb : List Frame} {f : Frame} (h : ∀ g ∈ pb, g.more = true) (hf : f.more = false) :
    WholeMsg (pb ++ [f]) := by
  refine ⟨by simp, ?_, ?_⟩
  · simpa [List.dropLast_concat] using h
  · intro g hg
    simp at hg
    subst hg; exact hf

theorem normaliseMore_length (fs : List Frame) : (normaliseMore fs).length = fs.length := by
  simp [normaliseMore]

theorem normaliseMore_getElem (fs : List Frame) (i : Nat) (h : i < (normaliseMore fs).length) :
    (normaliseMore fs)[i] = { fs[i]'(by simpa [normaliseMore] using h) with more := decide (i + 1 < fs.length) } := by
  simp [normaliseMore]

theorem normaliseMore_payloads (fs : List Frame) : (normaliseMore fs).map (·.payload) = fs.map (·.payload) := by
  apply List.ext_getElem
  · simp [normaliseMore]
  · intro i h1 h2
    simp [normaliseMore]

theorem wholeMsg_iff_getElem (m : List Frame) :
    WholeMsg m ↔ m ≠ [] ∧ ∀ i (h : i < m.length), m[i].more = decide (i + 1 < m.length) := by
  constructor
  · rintro ⟨h0, h1, h2⟩
    refine ⟨h0, fun i h => ?_⟩
    by_cases hi : i + 1 < m.length
    · have : m[i] ∈ m.dropLast := by
        rw [List.mem_iff_getElem]
        exact ⟨i, by simpa using (by omega : i < m.length - 1), by simp⟩
      simp [h1 _ this, hi]
    · have : m.getLast? = some m[i] := by
        rw [List.getLast?_eq_getElem?]
        have : m.length - 1 = i := by omega
        simp [this]
      simp [h2 _ this, hi]
  · rintro ⟨h0, h⟩
    refine ⟨h0, ?_, ?_⟩
    · intro f hf
      rw [List.mem_iff_getElem] at hf
      obtain ⟨i, hi, rfl⟩ := hf
      simp at hi
      simp [h i (by omega)]
      omega
    · intro f hf
      rw [List.getLast?_eq_getElem?] at hf
      have hl : 0 < m.length := List.length_pos_iff.mpr h0
      rw [List.getElem?_eq_getElem (by omega)] at hf
      cases hf
      simp [h]
      omega

theorem normaliseMore_whole (fs : List Frame) (h : fs ≠ []) : WholeMsg (normaliseMore fs) := by
  rw [wholeMsg_iff_getElem]
  refine ⟨?_, ?_⟩
  · intro h0
    have := congrArg List.length h0
    rw [normaliseMore_length] at this
    exact h (List.eq_nil_of_length_eq_zero this)
  · intro i hi
    rw [normaliseMore_getElem]
    simp only [normaliseMore_length]

theorem normaliseMore_of_whole (fs : List Frame) (h : WholeMsg fs) : normaliseMore fs = fs := by
  rw [wholeMsg_iff_getElem] at h
  apply List.ext_getElem (normaliseMore_length fs)
  intro i h1 h2
  rw [normaliseMore_getElem, ← h.2 i h2]


-- receiving socket -------------------------------------------------------------------------------


theorem takeMessage_whole : ∀ (c : List Frame), WholeMsg c → takeMessage c = (c, [])
  | [], h => absurd rfl h.1
  | f :: rest, h => by
    rcases (wholeMsg_cons f rest).mp h with ⟨rfl, hf⟩ | ⟨_, hf, hr⟩
    · simp [takeMessage, hf]
    · simp [takeMessage, hf, takeMessage_whole rest hr]

-- queue access ------------------------------------------------------------------------------------
theorem queueOf_setQueue_same (s : Stash) (p : Nat) (q : List Message) : (s.setQueue p q).queueOf p = q := by
  have : ∀ l : List (Nat × List Message), l.find? (fun _ => false) = none := by
    intro l; induction l <;> simp_all
  simp [Stash.queueOf, Stash.setQueue, List.find?_append, this]

theorem find?_filter_ne (l : List (Nat × List Message)) (p p' : Nat) (h : p' ≠ p) :
    (l.filter (·.1 != p)).find? (·.1 == p') = l.find? (·.1 == p') := by
  induction l with
  | nil => rfl
  | cons x xs ih =>
    by_cases hx : x.1 = p
    · have : x.1 ≠ p' := fun e => h (e.symm.trans hx)
      have hb : (p == p') = false := by simpa using Ne.symm h
      simp [hx, ih, hb]
    · simp [List.find?_cons, hx, ih]

theorem queueOf_setQueue_ne (s : Stash) (p p' : Nat) (q : List Message) (h : p' ≠ p) :
    (s.setQueue p q).queueOf p' = s.queueOf p' := by
  simp only [Stash.queueOf, Stash.setQueue, List.find?_append, find?_filter_ne _ _ _ h]
  cases List.find? (fun x => x.1 == p') s.pipes <;> simp [Ne.symm h]


theorem queueOf_mem {s : Stash} {p : Nat} {m : Message} (h : m ∈ s.queueOf p) : ∃ pq ∈ s.pipes, m ∈ pq.2 := by
  unfold Stash.queueOf at h
  cases hf : s.pipes.find? (·.1 == p) with
  | none => rw [hf] at h; simp at h
  | some pq => rw [hf] at h; exact ⟨pq, List.mem_of_find?_eq_some hf, by simpa using h⟩

theorem pop_spec {s s' : Stash} {m : Message} (h : s.pop = some (m, s')) :
    ∃ p q rdy, s.queueOf p = m :: q ∧
      s' = { s.setQueue p q with ready := rdy, taken := s.taken ++ [m], takenFrom := s.takenFrom ++ [(p, m)] } := by
  unfold Stash.pop at h
  split at h
  · cases h
  · rename_i p rest _
    split at h
    · cases h
    · rename_i m' q hq
      simp only [Option.some.injEq, Prod.mk.injEq] at h
      obtain ⟨rfl, rfl⟩ := h
      exact ⟨p, q, _, hq, rfl⟩

structure StashInv (s : Stash) : Prop where
  cfg : s.cfg = {}
  queues : ∀ pq ∈ s.pipes, ∀ m ∈ pq.2, WholeMsg m
  cache : ∀ c, s.cache = some c → WholeMsg c
  contig : s.returned ++ s.stashed = s.taken.flatten
  mp : ∀ r ∈ s.mpResults, WholeMsg r

theorem setQueue_queues {s : Stash} (h : ∀ pq ∈ s.pipes, ∀ m ∈ pq.2, WholeMsg m) (p : Nat) (q : List Message)
    (hq : ∀ m ∈ q, WholeMsg m) : ∀ pq ∈ (s.setQueue p q).pipes, ∀ m ∈ pq.2, WholeMsg m := by
  intro pq hpq m hm
  simp only [Stash.setQueue, List.mem_append, List.mem_filter, List.mem_singleton] at hpq
  rcases hpq with ⟨h1, _⟩ | rfl
  · exact h pq h1 m hm
  · exact hq m hm

theorem queueOf_whole {s : Stash} (h : ∀ pq ∈ s.pipes, ∀ m ∈ pq.2, WholeMsg m) (p : Nat) :
    ∀ m ∈ s.queueOf p, WholeMsg m := by
  intro m hm
  obtain ⟨pq, h1, h2⟩ := queueOf_mem hm
  exact h pq h1 m h2

theorem StashInv.init : StashInv {} := by
  refine ⟨rfl, ?_, ?_, rfl, ?_⟩ <;> simp

theorem StashInv.pop {s s' : Stash} {m : Message} (hi : StashInv s) (h : s.pop = some (m, s')) :
    WholeMsg m ∧ s'.cfg = s.cfg ∧ (∀ pq ∈ s'.pipes, ∀ m ∈ pq.2, WholeMsg m) ∧ s'.cache = s.cache
      ∧ s'.returned = s.returned ∧ s'.taken = s.taken ++ [m] ∧ s'.mpResults = s.mpResults := by
  obtain ⟨p, q, rdy, hq, rfl⟩ := pop_spec h
  have hw := queueOf_whole hi.queues p
  rw [hq] at hw
  refine ⟨hw m (by simp), rfl, ?_, rfl, rfl, rfl, rfl⟩
  exact setQueue_queues hi.queues p q (fun m' hm' => hw m' (by simp [hm']))

theorem StashInv.cache_none {s : Stash} (hi : StashInv s) (h : ∀ f rest, s.cache = some (f :: rest) → False) :
    s.cache = none := by
  cases hc : s.cache with
  | none => rfl
  | some c =>
    cases c with
    | nil => exact absurd rfl (hi.cache _ hc).1
    | cons f rest => exact (h f rest hc).elim

theorem stashed_of_none {s : Stash} (h : s.cache = none) : s.stashed = [] := by simp [Stash.stashed, h]

theorem StashInv.step {s : Stash} (hi : StashInv s) (e : StashEv) (he : ∀ p m, e = .put p m → WholeMsg m) :
    StashInv (s.step e).1 := by
  cases e with
  | register p cap => exact ⟨hi.cfg, hi.queues, hi.cache, hi.contig, hi.mp⟩
  | detach p =>
    have hk : s.cfg.keepOnDetach = true := by rw [hi.cfg]
    simp only [Stash.step, hk, ↓reduceIte]
    exact ⟨hi.cfg, hi.queues, hi.cache, hi.contig, hi.mp⟩
  | put p m =>
    simp only [Stash.step]
    split
    · exact hi
    · split
      · exact hi
      · refine ⟨hi.cfg, ?_, hi.cache, hi.contig, hi.mp⟩
        apply setQueue_queues hi.queues
        intro m' hm'
        rcases List.mem_append.mp hm' with h | h
        · exact queueOf_whole hi.queues p m' h
        · simp at h; subst h; exact he p _ rfl
  | recv =>
    simp only [Stash.step]
    split
    · rename_i f rest hc
      have hw := hi.cache _ hc
      have hct := hi.contig
      simp only [Stash.stashed, hc, Option.getD_some] at hct
      rcases (wholeMsg_cons f rest).mp hw with ⟨rfl, _⟩ | ⟨hne, _, hr⟩
      · refine ⟨hi.cfg, hi.queues, ?_, ?_, hi.mp⟩
        · intro c h; simp at h
        · simpa [Stash.stashed] using hct
      · have hie : rest.isEmpty = false := by cases rest <;> simp_all
        refine ⟨hi.cfg, hi.queues, ?_, ?_, hi.mp⟩
        · intro c h; simp only [hie] at h; cases h; exact hr
        · simpa [Stash.stashed, hie] using hct
    · rename_i hcn
      have hc := hi.cache_none (fun f rest h => hcn f rest h)
      have hct := hi.contig
      rw [stashed_of_none hc, List.append_nil] at hct
      split
      · refine ⟨hi.cfg, hi.queues, ?_, ?_, hi.mp⟩
        · intro c h; cases h
        · simpa [Stash.stashed] using hct
      · rename_i m s' hp
        obtain ⟨hw, h1, h2, h3, h4, h5, h6⟩ := hi.pop hp
        split
        · exact absurd rfl hw.1
        · rename_i f
          refine ⟨h1.trans hi.cfg, h2, ?_, ?_, h6 ▸ hi.mp⟩
          · intro c h; cases h
          · simp [Stash.stashed, h4, h5, hct]
        · rename_i f rest hne
          rcases (wholeMsg_cons f rest).mp hw with ⟨rfl, _⟩ | ⟨_, _, hr⟩
          · exact (hne rfl).elim
          · refine ⟨h1.trans hi.cfg, h2, ?_, ?_, h6 ▸ hi.mp⟩
            · intro c h; cases h; exact hr
            · simp [Stash.stashed, h4, h5, hct]
  | recvMultipart =>
    have hk : s.cfg.mpUsesStash = true := by rw [hi.cfg]
    simp only [Stash.step, hk, ↓reduceIte]
    split
    · rename_i f rest hc
      have hw := hi.cache _ hc
      have hct := hi.contig
      simp only [Stash.stashed, hc, Option.getD_some] at hct
      rw [takeMessage_whole _ hw]
      refine ⟨hi.cfg, hi.queues, ?_, ?_, ?_⟩
      · intro c h; simp at h
      · simpa [Stash.stashed] using hct
      · intro r hr
        rcases List.mem_append.mp hr with h | h
        · exact hi.mp r h
        · simp at h; subst h; exact hw
    · rename_i hcn
      have hc := hi.cache_none (fun f rest h => hcn f rest h)
      have hct := hi.contig
      rw [stashed_of_none hc, List.append_nil] at hct
      split
      · exact hi
      · rename_i m s' hp
        obtain ⟨hw, h1, h2, h3, h4, h5, h6⟩ := hi.pop hp
        refine ⟨h1.trans hi.cfg, h2, ?_, ?_, ?_⟩
        · intro c h; exact hi.cache c (h3 ▸ h)
        · simp [Stash.stashed, h3, hc, h4, h5, hct]
        · intro r hr
          simp only [h6] at hr
          rcases List.mem_append.mp hr with h | h
          · exact hi.mp r h
          · simp at h; subst h; exact hw


theorem StashInv.run (evs : List StashEv) : ∀ {s : Stash}, StashInv s →
    (∀ p m, StashEv.put p m ∈ evs → WholeMsg m) → StashInv (s.run evs) := by
  induction evs with
  | nil => intro s hi _; exact hi
  | cons e es ih =>
    intro s hi h
    exact ih (hi.step e (fun p m he => h p m (he ▸ List.mem_cons_self))) (fun p m hm => h p m (List.mem_cons_of_mem _ hm))

theorem StashInv.stashed_tail {s : Stash} (hi : StashInv s) (hs : s.stashed ≠ []) :
    (∀ f ∈ s.stashed.dropLast, f.more = true) ∧ (∀ f, s.stashed.getLast? = some f → f.more = false) := by
  cases hc : s.cache with
  | none => exact absurd (stashed_of_none hc) hs
  | some c =>
    have hw := hi.cache c hc
    have : s.stashed = c := by simp [Stash.stashed, hc]
    rw [this]
    exact hw.2

-- per-pipe FIFO ------------------------------------------------------------------------------------
def FifoInv (s : Stash) : Prop :=
  ∀ p, ((s.takenFrom.filter (·.1 == p)).map (·.2)) ++ s.queueOf p = (s.accepted.filter (·.1 == p)).map (·.2)

theorem FifoInv.congr {s s' : Stash} (hi : FifoInv s) (h1 : s'.pipes = s.pipes) (h2 : s'.takenFrom = s.takenFrom)
    (h3 : s'.accepted = s.accepted) : FifoInv s' := by
  intro p
  have := hi p
  simpa only [Stash.queueOf, h1, h2, h3] using this

theorem FifoInv.pop {s s' : Stash} {m : Message} (hi : FifoInv s) (h : s.pop = some (m, s')) : FifoInv s' := by
  obtain ⟨p, q, rdy, hq, rfl⟩ := pop_spec h
  intro p'
  have h0 := hi p'
  show List.map _ (List.filter _ (s.takenFrom ++ [(p, m)])) ++ (s.setQueue p q).queueOf p' =
    List.map _ (List.filter _ s.accepted)
  by_cases hp : p' = p
  · subst hp
    rw [queueOf_setQueue_same]
    rw [hq] at h0
    simpa [List.filter_append] using h0
  · rw [queueOf_setQueue_ne _ _ _ _ hp]
    have hb : (p == p') = false := by simpa using Ne.symm hp
    simpa [List.filter_append, List.filter_cons, hb] using h0

theorem FifoInv.step {s : Stash} (hi : FifoInv s) (e : StashEv) : FifoInv (s.step e).1 := by
  cases e with
  | register p cap => exact hi.congr rfl rfl rfl
  | detach p => exact hi.congr rfl rfl rfl
  | put p m =>
    simp only [Stash.step]
    split
    · exact hi
    · split
      · exact hi
      · intro p'
        have h0 := hi p'
        show List.map _ (List.filter _ s.takenFrom) ++ (s.setQueue p (s.queueOf p ++ [m])).queueOf p' =
          List.map _ (List.filter _ (s.accepted ++ [(p, m)]))
        by_cases hp : p' = p
        · subst hp
          rw [queueOf_setQueue_same, ← List.append_assoc, h0]
          simp [List.filter_append]
        · rw [queueOf_setQueue_ne _ _ _ _ hp]
          have hb : (p == p') = false := by simpa using Ne.symm hp
          simpa [List.filter_append, List.filter_cons, hb] using h0
  | recv =>
    simp only [Stash.step]
    split
    · exact hi.congr rfl rfl rfl
    · split
      · exact hi.congr rfl rfl rfl
      · rename_i m s' hp
        have := hi.pop hp
        split <;> exact this.congr rfl rfl rfl
  | recvMultipart =>
    simp only [Stash.step]
    split
    · exact hi.congr rfl rfl rfl
    · split
      · exact hi
      · rename_i m s' hp
        exact (hi.pop hp).congr rfl rfl rfl

theorem FifoInv.run (evs : List StashEv) : ∀ {s : Stash}, FifoInv s → FifoInv (s.run evs) := by
  induction evs with
  | nil => intro s hi; exact hi
  | cons e es ih => intro s hi; exact ih (hi.step e)

theorem FifoInv.init : FifoInv {} := by intro p; rfl


-- receiving session ------------------------------------------------------------------------------


def MpInv (s : Eng) (e : List AppAct) : Prop :=
  (∀ f ∈ s.partialBatch, f.more = true) ∧
    ∀ m, AppAct.deliver m ∈ e → WholeMsg m ∧ m.length ≤ Gen.MAX_FRAMES_PER_MESSAGE

theorem step_mp {spec : AbsSpec} {cfg : Cfg} {t : Nat} {s s' : Eng} {o : Out}
    (h : step spec cfg t s = some (s', o)) (hb : ∀ f ∈ s.partialBatch, f.more = true) :
    (∀ f ∈ s'.partialBatch, f.more = true) ∧
      ∀ m, AppAct.deliver m ∈ o.app → WholeMsg m ∧ m.length ≤ Gen.MAX_FRAMES_PER_MESSAGE := by
  obtain ⟨phase, acc, version, revisionSent, v2IdentitySent, v2PeerType, mech, pendingSealed, sealed,
    lastActivity, lastPing, waitingForPong, partialBatch, panicked, gNegotiated, gTokens⟩ := s
  simp only at hb
  cases phase <;> simp only [step] at h <;> repeat' (split at h)
  all_goals first
    | (cases h; done)
    | skip
  all_goals
    simp only [Option.some.injEq, Prod.mk.injEq, fail, enterReady] at h
    obtain ⟨rfl, rfl⟩ := h
  all_goals refine ⟨?_, ?_⟩
  all_goals first
    | exact hb
    | (intro f hf; simp at hf; done)
    | skip
  all_goals first
    | (intro f hf
       rcases List.mem_append.mp hf with h | h
       · exact hb f h
       · simp only [List.mem_singleton] at h; subst h; assumption)
    | (intro m hm
       simp only [List.mem_singleton, AppAct.deliver.injEq] at hm
       subst hm
       rename_i hlim _ hmore _
       refine ⟨wholeMsg_snoc hb (by simpa using hmore), ?_⟩
       simp [Gen.dataFrameLimitChecked] at hlim
       simp only [List.length_append, List.length_singleton]
       omega)


theorem feedAll_mp (spec : AbsSpec) (cfg : Cfg) (reads : List (Nat × Bytes)) :
    MpInv (feedAll spec cfg Eng.init reads).1 (feedAll spec cfg Eng.init reads).2.app := by
  have := feedAll_inv (P := MpInv) (spec := spec) (cfg := cfg) (fun s e d h => h)
    (fun t s e s' o h hs => by
      obtain ⟨h1, h2⟩ := step_mp hs h.1
      refine ⟨h1, fun m hm => ?_⟩
      rcases List.mem_append.mp hm with hm | hm
      · exact h.2 m hm
      · exact h2 m hm)
    reads Eng.init [] (And.intro (fun f hf => nomatch hf) (fun m hm => nomatch hm))
  simpa using this


end Rzmq
