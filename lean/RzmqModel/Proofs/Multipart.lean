import RzmqModel.Model.Multipart
import RzmqModel.Model.Engine
namespace Rzmq
end Rzmq
