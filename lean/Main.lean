import RzmqModel.Driver.Wire
import RzmqModel.Driver.Engine
import RzmqModel.Driver.Stack
import RzmqModel.Driver.Routing
import RzmqModel.Driver.Conc
open Rzmq.Driver

structure DState where
  eng : Engine.St := {}
  rt : Routing.St := {}
  cc : Conc.St := {}

def dispatch (comp : String) (st : DState) (parts : List String) : DState × String :=
  if parts.head? == some "note" then (st, "note") else
  match comp with
  | "stack" => (st, Stack.runOp parts)
  | "wire" => (st, Wire.runOp parts)
  | "engine" => let r := Engine.runOp st.eng parts; ({ st with eng := r.1 }, r.2)
  | "routing" => let r := Routing.runOp st.rt parts; ({ st with rt := r.1 }, r.2)
  | "conc" => let r := Conc.runOp st.cc parts; ({ st with cc := r.1 }, r.2)
  | _ => (st, "bad-component")

partial def loop (comp : String) (h : IO.FS.Stream) (out : IO.FS.Stream) (st : DState) : IO Unit := do
  let line ← h.getLine
  if line.isEmpty then return ()
  let l := line.trimAscii.toString
  if l.isEmpty || l.startsWith "#" then
    loop comp h out st
  else
    let (st', res) := dispatch comp st (l.splitOn " ")
    out.putStrLn res
    loop comp h out st'

def main (args : List String) : IO Unit := do
  let comp := args.headD "wire"
  let stdout ← IO.getStdout
  loop comp (← IO.getStdin) stdout {}
  stdout.flush
