import RzmqModel.Driver.Wire
open Rzmq.Driver

partial def loop (comp : String) (h : IO.FS.Stream) (out : IO.FS.Stream) : IO Unit := do
  let line ← h.getLine
  if line.isEmpty then return ()
  let l := line.trimAscii.toString
  if l.isEmpty || l.startsWith "#" then
    loop comp h out
  else
    let parts := l.splitOn " "
    let res := match comp with
      | "wire" => Wire.runOp parts
      | _ => "bad-component"
    out.putStrLn res
    loop comp h out

def main (args : List String) : IO Unit := do
  let comp := args.headD "wire"
  let stdout ← IO.getStdout
  loop comp (← IO.getStdin) stdout
  stdout.flush
