import RzmqModel.Gen.Consts
import RzmqModel.Model.Wire
