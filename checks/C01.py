"""C01 — while connected: every accepted message arrives exactly once, in order, intact."""
from . import flow

PAIRS = [("PUSH", "PULL"), ("PUSH", "PULL"), ("DEALER", "DEALER"), ("DEALER", "ROUTER"), ("ROUTER", "DEALER")]
PAGE = 4096


def physical(sbb, sbc):
    longf = min(sbc, sbb // 256)
    raw = sbb + longf * 9 + max(0, sbc - longf) * 2
    return ((raw + PAGE - 1) // PAGE) * PAGE


def sizes_for(rng, n, sbb, sbc):
    """size mix tuned to the batching boundaries: small, around the logical limit, around the physical ceiling, large"""
    phys = physical(sbb, sbc)
    out = []
    for _ in range(n):
        r = rng.random()
        if r < 0.45:
            out.append(rng.choice([0, 1, 10, 10, 10, 20, 200, 255, 256, 257]))
        elif r < 0.6:
            out.append(max(0, sbb // rng.choice([1, 2, 3]) + rng.choice([-10, -9, -1, 0, 1, 9])))
        elif r < 0.85:
            out.append(max(0, phys // rng.choice([1, 1, 2, 2, 3, 8]) + rng.choice([-300, -19, -9, -1, 0, 1, 10])))
        elif r < 0.97:
            out.append(rng.randrange(300, max(301, phys)))
        else:
            out.append(rng.choice([70000, 300000, 1048576]))
    return out


def message(rng, size, seed, multipart):
    if not multipart or rng.random() < 0.6:
        return "0p%dx%d" % (size, seed) if size else "0-"
    k = rng.choice([2, 2, 3, 5])
    parts = []
    for i in range(k):
        sz = size if i == k - 1 else rng.choice([0, 1, 5, 300])
        body = "p%dx%d" % (sz, seed * 7 + i) if sz else "-"
        parts.append(("1" if i < k - 1 else "0") + body)
    return ",".join(parts)


def one_case(rng, tier, big_ok=True):
    sty, rty = rng.choice(PAIRS)
    tr = rng.choice(["tcp", "tcp", "ipc", "inproc"])
    if tr == "inproc" and (sty, rty) == ("DEALER", "DEALER"):
        rty = "ROUTER"   # inproc refuses DEALER-DEALER (known finding C05:inproc-table-narrower), not C01's business
    sbc = rng.choice([1, 2, 3, 8, 8, 16, 64, 128])
    sbb = rng.choice([1, 100, 1000, 1000, 4096, 5000, 65536, 262144])
    sndhwm = rng.choice([1, 2, 3, 10, 100, 100, 256])
    rcvhwm = rng.choice([1, 2, 5, 100, 256])
    n = rng.choice([5, 10, 12, 20, 40]) if tier == "quick" else rng.choice([5, 10, 20, 60, 150])
    sizes = sizes_for(rng, n, sbb, sbc)
    if not big_ok:
        sizes = [min(s, 20000) for s in sizes]
    multipart = sty != "REQ"
    msgs = ";".join(message(rng, s, i + 1, multipart) for i, s in enumerate(sizes))
    opts = "tr=%s,rt=%s,when=%s,pace=%d" % (tr, rng.choice(["ct", "ct", "mt"]),
                                            "after" if (sty == "ROUTER" or rng.random() < 0.6) else "before",
                                            rng.choice([0, 0, 0, 1, 3]))
    if rng.random() < 0.3:
        opts += ",side=bind"
    scfg = "type=%s,sbc=%d,sbb=%d,sndhwm=%d" % (sty, sbc, sbb, sndhwm)
    if sty == "ROUTER":
        scfg += ",mandatory=1"
    if rng.random() < 0.2:
        scfg += ",cork=1"
    rcfg = "type=%s,rcvhwm=%d" % (rty, rcvhwm)
    if rng.random() < 0.5:
        rcfg += ",rbc=%d,rbb=%d" % (rng.choice([1, 2, 8, 64]), rng.choice([1, 100, 4096, 65536]))
    if sty == "ROUTER":
        rcfg += ",id=h6465616c"
    return ["stream %s %s %s %s" % (opts, scfg, rcfg, msgs)]


def carry_case(rng):
    """histories aimed at the carry-over branch: the first pass overflows, the carry pass stops at a big message"""
    sbc = rng.choice([4, 8, 8, 16])
    sbb = rng.choice([1000, 1000, 2000, 4096])
    phys = physical(sbb, sbc)
    first = rng.choice([1, 10, 50])
    fill = []
    tot = first + 9
    while tot + 9 < phys * rng.choice([0.8, 0.95, 0.99]):
        s = rng.choice([phys // 3, phys // 2 - 20, phys // 4])
        fill.append(s)
        tot += s + 9
    a = rng.choice([10, sbb // 2, sbb - 20])
    big = phys - rng.choice([10, 100, 300])
    tail = [rng.choice([1, 10, 10, 100]) for _ in range(rng.randrange(3, 14))]
    sizes = [first] + fill + [a, big] + tail
    msgs = ";".join("0p%dx%d" % (s, i + 1) if s else "0-" for i, s in enumerate(sizes))
    tr = rng.choice(["tcp", "ipc"])
    return ["stream tr=%s,rt=ct,when=after type=PUSH,sbc=%d,sbb=%d,sndhwm=%d type=PULL %s"
            % (tr, sbc, sbb, rng.choice([100, 256]), msgs)]


def lag_case(rng):
    """a receiver that lags by more than RCVHWM behind a sender that then goes quiet: the tail must still arrive (the
    direct inproc pipe and its reader task, the session's ingress hand-over on tcp/ipc)"""
    tr = rng.choice(["inproc", "inproc", "tcp", "ipc"])
    sty, rty = rng.choice([("PUSH", "PULL"), ("PUSH", "PULL"), ("DEALER", "ROUTER"), ("DEALER", "DEALER")])
    if tr == "inproc" and rty == "DEALER":
        rty = "ROUTER"
    n = rng.choice([40, 60, 90])
    msgs = ";".join("0p%dx%d" % (rng.choice([5, 20, 300]), i + 1) for i in range(n))
    return ["stream tr=%s,rt=%s,when=after,pace=%d type=%s,sndhwm=%d type=%s,rcvhwm=%d,rbc=%d %s" % (
        tr, rng.choice(["ct", "mt"]), rng.choice([1, 3]), sty, rng.choice([2, 5, 50]), rty, rng.choice([1, 2, 5]),
        rng.choice([1, 8, 64]), msgs)]


def early_burst_cases(tier):
    """a fresh DEALER sends a burst right after connect() to a ROUTER that already sits in recv (multi-thread runtime): the
    first messages arrive while the ROUTER is still finalising the peer's identity; many repetitions (a rare interleaving)"""
    msgs = ";".join("0p5x%d" % (i + 1) for i in range(40))
    return [["stream tr=tcp,rt=mt,when=before,pace=0 type=DEALER type=ROUTER %s" % msgs] for _ in range(300 if tier == "quick" else 4000)]


def gen(rng, tier):
    n = 40 if tier == "quick" else 600
    cases = [carry_case(rng) for _ in range(n // 4)]
    cases += [lag_case(rng) for _ in range(n // 5)]
    cases += early_burst_cases(tier)
    cases += [one_case(rng, tier, big_ok=(tier != "quick" or i % 5 == 0)) for i in range(n)]
    return cases


def dist(cases):
    d = {"cases": len(cases), "by_pair": {}, "by_transport": {}, "messages": 0, "max_payload": 0, "multipart_msgs": 0,
         "when_before": 0, "mt": 0, "paced": 0}
    import re
    for c in cases:
        p = c[0].split(" ")
        if p[0] != "stream":
            continue
        o = dict(kv.split("=") for kv in p[1].split(","))
        sty = dict(kv.split("=") for kv in p[2].split(","))["type"]
        rty = dict(kv.split("=") for kv in p[3].split(","))["type"]
        d["by_pair"][sty + ">" + rty] = d["by_pair"].get(sty + ">" + rty, 0) + 1
        d["by_transport"][o["tr"]] = d["by_transport"].get(o["tr"], 0) + 1
        ms = p[4].split(";")
        d["messages"] += len(ms)
        d["multipart_msgs"] += sum(1 for m in ms if "," in m)
        for x in re.findall(r"p(\d+)x", p[4]):
            d["max_payload"] = max(d["max_payload"], int(x))
        d["when_before"] += o.get("when") == "before"
        d["mt"] += o.get("rt") == "mt"
        d["paced"] += o.get("pace", "0") != "0"
    return d


SPEC = {
    "components": [{"comp": "stack", "gen": gen, "label": "stream", "shrink": False,
                    "nontrivial": lambda c, i: any(l.startswith("delivered=") and not l.startswith("delivered=0:") for l in i),
                    "dist": dist}],
    "search": lambda rng, tier: [("stack", [carry_case(rng) for _ in range(60)] + gen(rng, "quick"), None, False)],
    "rule": "stack level: one sender socket streams 5..150 messages (single and multipart; payloads 0..1 MiB mixed around the count limit, "
            "the logical byte limit and the page-rounded physical ceiling of the sender's batching options) to one receiver over tcp/ipc/inproc, "
            "SNDHWM/RCVHWM 1..256, send/receive batch options, TCP_CORK, current-thread and multi-thread runtimes, first send before or after "
            "the handshake, receiver pacing 0..3 ms per message; oracle in the harness: the receiver's sequence equals the accepted sequence "
            "(lost / duplicated / reordered / corrupted are told apart); the model predicts the digest of exactly the accepted sequence",
    "assumptions": ["the events of the model (one loop pass, one partial write, one control frame, one read, one drain, one cancelled send) are "
                    "atomic with respect to each other: the session actor is one task",
                    "fibre channels between socket and session are FIFO (C08 covers the ready-pipe queue; the session pipe is an mpmc used "
                    "by one producer side at a time)",
                    "kernel sockets deliver bytes in order (TCP/UDS)"],
}


def run(ctx):
    return flow.run(ctx, SPEC)
