"""Generators / reference oracles for the `routing` component (C11, C12, C13, C17)."""

TOPICS = [b"", b"a", b"ab", b"abc", b"abd", b"b", b"ba", b"\x00", b"\x00\x00", b"\xff", b"\xffa", b"topic/1", b"topic/", b"topic"]


def hx(b):
    return "h" + b.hex() if b else "-"


def rand_topic(rng):
    if rng.random() < 0.8:
        return rng.choice(TOPICS)
    return bytes(rng.choice([0, 1, 97, 98, 255]) for _ in range(rng.randrange(0, 5)))


def trie_case(rng, n):
    ops = ["trie new"]
    for _ in range(n):
        r = rng.random()
        if r < 0.35:
            ops.append("trie sub " + hx(rand_topic(rng)))
        elif r < 0.6:
            ops.append("trie unsub " + hx(rand_topic(rng)))
        elif r < 0.92:
            t = rand_topic(rng) + bytes(rng.choice([97, 98, 0, 255]) for _ in range(rng.randrange(0, 3)))
            ops.append("trie match " + hx(t))
        else:
            ops.append("trie topics")
    ops.append("trie topics")
    return ops


def pb(spec):
    return b"" if spec == "-" else bytes.fromhex(spec[1:])


def trie_oracle(case, impl):
    active = {}
    for op, out in zip(case, impl):
        p = op.split(" ")
        if p[1] == "new":
            active = {}
        elif p[1] == "sub":
            t = pb(p[2])
            active[t] = active.get(t, 0) + 1
        elif p[1] == "unsub":
            t = pb(p[2])
            c = active.get(t, 0)
            want = "true" if c == 1 else "false"
            if c > 0:
                active[t] = c - 1
            if out != want:
                return "key=unsub-result unsubscribe(%s) returned %s with %d active, expected %s" % (p[2], out, c, want)
        elif p[1] == "match":
            m = pb(p[2])
            want = any(c > 0 and m.startswith(t) for t, c in active.items())
            if out != ("true" if want else "false"):
                return "key=match matches(%s)=%s but active subscriptions %s" % (p[2], out, sorted(hx(t) for t, c in active.items() if c > 0))
        elif p[1] == "topics":
            want = "[" + ",".join(sorted("h" + t.hex() for t, c in active.items() if c > 0)) + "]"
            if out != want:
                return "key=topics get_all_topics=%s expected %s" % (out, want)
    return None


def lb_case(rng, n):
    ops = ["lb new"]
    for _ in range(n):
        r = rng.random()
        if r < 0.25:
            ops.append("lb add %d" % rng.randrange(1, 6))
        elif r < 0.4:
            ops.append("lb rm %d" % rng.randrange(1, 6))
        else:
            ops.append("lb next")
    return ops


def lb_oracle(case, impl):
    """round robin over the current list; removal never skips/repeats; add joins at the end"""
    peers = []
    nxt = None  # value of the peer that must be served next (None = start of list)
    for op, out in zip(case, impl):
        p = op.split(" ")
        if p[1] == "new":
            peers, nxt = [], None
        elif p[1] == "add":
            u = int(p[2])
            if u not in peers:
                peers.append(u)
        elif p[1] == "rm":
            u = int(p[2])
            if u in peers:
                i = peers.index(u)
                if nxt == u:
                    nxt = peers[(i + 1) % len(peers)] if len(peers) > 1 else None
                peers.remove(u)
                if not peers:
                    nxt = None
        elif p[1] == "next":
            if not peers:
                if out != "none":
                    return "key=lb-empty next on empty balancer returned " + out
                continue
            want = nxt if nxt is not None else peers[0]
            if out != str(want):
                return "key=round-robin expected peer %s next (rotation %s), got %s" % (want, peers, out)
            nxt = peers[(peers.index(want) + 1) % len(peers)]
    return None


TYPES = ["REQ", "DEALER", "ROUTER", "none", "PUSH"]


def map_case(rng, n, collisions=False):
    ops = ["map new"]
    ids = [b"A", b"B", b"C", b"\x00\x01", b"peer-with-a-long-identity-" + b"x" * 200]
    for _ in range(n):
        r = rng.random()
        pipe = rng.randrange(1, 6)
        i = rng.choice(ids)
        if r < 0.25:
            ops.append("map add %s %d %d" % (hx(i), pipe, pipe * 10))
        elif r < 0.45:
            ops.append("map update %d %s %d %s" % (pipe, hx(i), pipe * 10, rng.choice(TYPES)))
        elif r < 0.6:
            ops.append("map rmpipe %d" % pipe)
        elif r < 0.8:
            ops.append("map get " + hx(i))
        elif r < 0.9:
            ops.append("map pipe %d" % pipe)
        else:
            payload = rng.choice(["~", "0h01", "1h01,0-", "1-,0h02", "1-,1-,0h33"])
            ops.append("map prep %s %d %s %s" % (hx(i), rng.randrange(2), "0" + hx(i), payload))
    return ops


def map_oracle(case, impl):
    """spec: per live pipe its current identity/uri; lookups must follow it while no two live pipes share an identity"""
    live = {}
    collided = False
    for op, out in zip(case, impl):
        p = op.split(" ")
        if p[1] == "new":
            live, collided = {}, False
        elif p[1] == "add":
            i, pipe, uri = p[2], int(p[3]), p[4]
            if any(pp != pipe and v[0] == i for pp, v in live.items()):
                collided = True
            live[pipe] = (i, uri, "DefaultRouterStrategy")
        elif p[1] == "update":
            pipe, i, uri, ty = int(p[2]), p[3], p[4], p[5]
            if any(pp != pipe and v[0] == i for pp, v in live.items()):
                collided = True
            strat = {"REQ": "ReqPeerStrategy", "DEALER": "DealerPeerStrategy", "ROUTER": "RouterPeerStrategy"}.get(ty, "DefaultRouterStrategy")
            live[pipe] = (i, uri, strat)
        elif p[1] == "rmpipe":
            live.pop(int(p[2]), None)
        elif p[1] == "get":
            holders = [v for v in live.values() if v[0] == p[2]]
            if out != "none":
                # soundness (all histories): the answer is a live pipe that currently holds this identity
                if not any(out == "%s %s" % (v[1], v[2]) for v in holders):
                    return "key=router-lookup-unsound lookup(%s)=%s but live holders are %s" % (p[2], out, holders)
            if not collided:
                want = "%s %s" % (holders[0][1], holders[0][2]) if holders else "none"
                if out != want:
                    return "key=router-lookup lookup(%s)=%s expected %s" % (p[2], out, want)
        elif p[1] == "pipe":
            want = live[int(p[2])][0] if int(p[2]) in live else "none"
            want = "h" + bytes.fromhex(want[1:]).hex() if want not in ("none", "-") else want
            if out != want:
                return "key=router-pipe-identity identity_of_pipe(%s)=%s expected %s" % (p[2], out, want)
    return None


def backoff_cases(rng, n):
    cases = []
    for _ in range(n):
        base = rng.choice([0, 1, 10, 100, 1000, 5000, 2 ** 31 - 1, rng.randrange(1, 100000)])
        mx = rng.choice([0, 0, 1, 50, 1000, 30000, 2 ** 31 - 1, rng.randrange(1, 100000)])
        ks = sorted(set([0, 1, 2, 3, 30, 31, 32, 33, 64, 2 ** 32 - 2, 2 ** 32 - 1] + [rng.randrange(0, 40) for _ in range(4)]))
        cases.append(["backoff %d %d %d" % (k, base, mx) for k in ks])
    return cases


def backoff_oracle(case, impl):
    prev = None
    for op, out in zip(case, impl):
        _, k, base, mx = op.split(" ")
        k, base, mx = int(k), int(base), int(mx)
        d = int(out.split(" ")[0])
        if mx > 0 and d > mx:
            return "key=backoff-cap delay %d exceeds RECONNECT_IVL_MAX %d (attempt %d)" % (d, mx, k)
        if k == 0 and d != (min(base, mx) if mx > 0 else base):
            return "key=backoff-start first delay %d, RECONNECT_IVL %d, max %d" % (d, base, mx)
        if prev is not None:
            pk, pd = prev
            if d < pd:
                return "key=backoff-monotone delay shrinks from %d (attempt %d) to %d (attempt %d)" % (pd, pk, d, k)
            if k == pk + 1 and d > 2 * pd:
                return "key=backoff-geometric delay more than doubles: %d -> %d" % (pd, d)
        prev = (k, d)
    return None
