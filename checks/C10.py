"""C10 — REQ and REP enforce strict alternation for every call history."""
from . import flow


def gen_stack(rng, tier):
    cases = []
    reps = 2 if tier == "quick" else 12
    for i in range(reps):
        for tr in ("tcp", "ipc"):
            n = rng.choice([2, 4, 8])
            ms = 600 if tier == "quick" else 2000
            cases.append(["!reqrace %s %d %d" % (tr, n, ms)])
            cases.append(["!reprace %s %d %d" % (tr, n, ms)])
    for tr in ("tcp", "ipc"):
        cases.append(["reqstale %s" % tr])
    return cases


SPEC = {
    "components": [{"comp": "stack", "gen": gen_stack, "label": "stack-race", "shrink": False,
                    "nontrivial": lambda c, i: any("=ok" in l for l in i), "dist": lambda cs: {"cases": len(cs)}}],
    "search": lambda rng, tier: [("stack", gen_stack(rng, "thorough" if tier == "thorough" else "quick"), None, False)],
    "rule": "stack level, multi-thread runtime: 2..8 tasks hammer send()/recv() on clones of one REQ socket against a ROUTER peer that "
            "pauses before every reply and reports a second request arriving meanwhile (race-free oracle at the peer); 2..8 tasks "
            "a scripted late-waiter history (two recv_multipart calls in one exchange, the second consumes the next exchange's reply; then recv "
            "must be refused and send accepted); 2..8 tasks hammer recv()+send(echo) on clones of one REP socket against two DEALER peers that each keep one request outstanding "
            "and check that every reply echoes their own request; tcp and ipc; non-trivial = at least one exchange completed",
    "assumptions": ["the lock-scope granularity of the model: each lock scope of req_socket.rs / rep_socket.rs is atomic",
                    "a recv() that times out gives the exchange up by design (logged as `abandoned` in the model)",
                    "which lock scopes exist (state claimed under the checking lock, roll-back guard, exchange guard) is re-extracted "
                    "from the source by pattern; the stack scenarios are a search, not an exhaustive schedule enumeration"],
}


def run(ctx):
    return flow.run(ctx, SPEC)
