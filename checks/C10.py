"""C10 — REQ and REP enforce strict alternation for every call history."""
from . import flow


def gen_stack(rng, tier):
    cases = []
    reps = 2 if tier == "quick" else 12
    for i in range(reps):
        for tr in ("tcp", "ipc"):
            n = rng.choice([2, 4, 8])
            ms = 600 if tier == "quick" else 2000
            cases.append(["!reqrace %s %d %d" % (tr, n, ms)])
            cases.append(["!reprace %s %d %d" % (tr, n, ms)])
    for tr in ("tcp", "ipc"):
        cases.append(["reqstale %s" % tr])
    return cases


def script_case(rng):
    kind = rng.choice(["REQ", "REP"])
    n = rng.randrange(5, 17)
    evs = []
    started = []
    nxt = [1]

    def start(prefix):
        evs.append("%s%d" % (prefix, nxt[0]))     # every receive gets a task id of its own
        started.append(nxt[0])
        nxt[0] += 1

    def drop():
        if started:
            evs.append("x%d" % rng.choice(started))

    if kind == "REP":
        for _ in range(n):
            r = rng.random()
            if r < 0.35:
                start("r")
            elif r < 0.6:
                evs.append("q%d" % rng.randrange(1, 3))
            elif r < 0.9:
                evs.append("s")
            else:
                drop()
    else:
        style = rng.choice(["r", "m"])      # one receive style per script: which waiter wins a reply is not scripted
        for _ in range(n):
            r = rng.random()
            if r < 0.3:
                evs.append("s")
            elif r < 0.6:
                start(style)
            elif r < 0.9:
                evs.append("p")
            else:
                drop()
    return ["fsmscript %s %s" % (kind, ",".join(evs))]


def script_oracle(case, impl):
    """the property itself, judged on the implementation's log"""
    if not case[0].startswith("fsmscript") or not impl or not impl[0].startswith("log=["):
        return None
    kind = case[0].split(" ")[1]
    log = impl[0][5:impl[0].index("]")].split(" ") if "]" in impl[0] else []
    log = [x for x in log if x]
    if kind == "REP":
        last = None          # peer of the request being answered
        for x in log:
            if x.startswith("got:p"):
                if last is not None:
                    return "REP: two receives succeeded with no send in between: " + impl[0]
                last = x[5:].split("-")[0]
            elif x.startswith("s=ok"):
                if last is None:
                    return "REP: a send succeeded with no request pending: " + impl[0]
                if x != "s=ok>P" + last:
                    return "REP: reply went to %s, the request came from P%s: %s" % (x[5:], last, impl[0])
                last = None
    else:
        outstanding = False
        sends = recvs = 0
        for x in log:
            if x == "s=ok":
                if outstanding:
                    return "REQ: two sends succeeded with no receive in between: " + impl[0]
                outstanding = True
                sends += 1
            elif x.startswith("got:"):
                recvs += 1
                outstanding = False
                if recvs > sends:
                    return "REQ: more replies received than requests sent: " + impl[0]
    return None


def gen_scripts(rng, tier):
    return [script_case(rng) for _ in range(40 if tier == "quick" else 800)]


SPEC = {
    "components": [{"comp": "stack", "gen": gen_scripts, "label": "call-histories", "shrink": False, "oracle": script_oracle,
                    "nontrivial": lambda c, i: any("got:" in l for l in i), "dist": lambda cs: {"cases": len(cs), "REQ": sum(1 for c in cs if " REQ " in c[0]), "events": sum(c[0].count(",") + 1 for c in cs)}},
                   {"comp": "stack", "gen": gen_stack, "label": "stack-race", "shrink": False,
                    "nontrivial": lambda c, i: any("=ok" in l for l in i), "dist": lambda cs: {"cases": len(cs)}}],
    "search": lambda rng, tier: [("stack", [script_case(rng) for _ in range(300)], script_oracle, False),
                                 ("stack", gen_stack(rng, "thorough" if tier == "thorough" else "quick"), None, False)],
    "rule": "call histories: random scripts (5..16 events: receives started by up to 3 tasks in recv() or recv_multipart() style, sends, peer "
            "requests/replies, dropped receive futures) run on a real REQ or REP socket with a settle pause after every event; each call's "
            "outcome is compared with the model's (`ReqSys`/`RepSys` stepped by the same events) and judged by the property's own oracle; "
            "stack level, multi-thread runtime: 2..8 tasks hammer send()/recv() on clones of one REQ socket against a ROUTER peer that "
            "pauses before every reply and reports a second request arriving meanwhile (race-free oracle at the peer); 2..8 tasks "
            "a scripted late-waiter history (two recv_multipart calls in one exchange, the second consumes the next exchange's reply; then recv "
            "must be refused and send accepted); 2..8 tasks hammer recv()+send(echo) on clones of one REP socket against two DEALER peers that each keep one request outstanding "
            "and check that every reply echoes their own request; tcp and ipc; non-trivial = at least one exchange completed",
    "assumptions": ["the lock-scope granularity of the model: each lock scope of req_socket.rs / rep_socket.rs is atomic",
                    "a recv() that times out gives the exchange up by design (logged as `abandoned` in the model)",
                    "which lock scopes exist (state claimed under the checking lock, roll-back guard, exchange guard) is re-extracted "
                    "from the source by pattern; the stack scenarios are a search, not an exhaustive schedule enumeration"],
}


def run(ctx):
    return flow.run(ctx, SPEC)
