"""C11 — ROUTER addresses by true peer identity; envelopes round-trip unchanged (map + framing part)."""
from . import flow
from . import routegen as R


def gen(rng, tier):
    n = 800 if tier == "quick" else 25000
    cases = [R.map_case(rng, rng.randrange(5, 40)) for _ in range(n)]
    payloads = ["~", "0h01", "1h01,0h02", "1-,0h02", "0-", "1-,1-,0-", "1h41,1-,0h42", "3h01,0h02"]
    for pl in payloads:
        cases.append(["env renc " + pl, "env rdec " + pl, "env denc " + pl, "env ddec " + pl])
    return cases


def envelope_streams(rng, tier):
    """every empty/non-empty shape of 1..3 payload frames, both directions between ROUTER and DEALER, both transports with an engine"""
    shapes = []
    for k in (1, 2, 3):
        for mask in range(2 ** k):
            fr = []
            for i in range(k):
                body = "-" if (mask >> i) & 1 else "h%02x%02x" % (0x41 + i, k)
                fr.append(("1" if i < k - 1 else "0") + body)
            shapes.append(",".join(fr))
    cases = []
    for tr in ("tcp", "inproc") if tier == "quick" else ("tcp", "ipc", "inproc"):
        for style in ("mp", "fr"):
            msgs = ";".join(shapes)
            cases.append(["stream tr=%s,rt=ct,when=after,style=%s type=ROUTER,mandatory=1 type=DEALER,id=h6431 %s" % (tr, style, msgs)])
            cases.append(["stream tr=%s,rt=ct,when=after,style=%s type=DEALER type=ROUTER %s" % (tr, style, msgs)])
    # a peer with an announced identity sends, disconnects, and only then the ROUTER reads: never under another identity
    for tr in ("tcp", "inproc") if tier == "quick" else ("tcp", "ipc", "inproc"):
        cases.append(["routerlate %s DEALER %d %d" % (tr, rng.choice([4, 8, 20]), 3)])
    cases.append(["routerlate tcp REQ 1 3"])
    return cases


SPEC = {
    "components": [{"comp": "stack", "gen": envelope_streams, "label": "envelopes-stack", "shrink": False,
                    "nontrivial": lambda c, i: any(l.startswith("delivered=") or l == "routerlate=ok" for l in i), "dist": lambda cs: {"cases": len(cs)}},
                   {"comp": "routing", "gen": gen, "oracle": R.map_oracle, "label": "routermap",
                    "nontrivial": lambda c, i: any(" " in l and l != "none" for l in i), "dist": lambda cs: {"cases": len(cs)}}],
    "search": lambda rng, tier: [("stack", envelope_streams(rng, "thorough"), None, False), ("routing", gen(rng, tier), R.map_oracle)],
    "rule": "stack level: every empty/non-empty shape of 1..3 payload frames sent ROUTER>DEALER (addressed by the DEALER's ROUTING_ID) and "
            "DEALER>ROUTER over tcp/ipc/inproc, read whole and frame by frame: the payload must arrive unchanged (digest predicted by the model); a DEALER/REQ "
            "with an announced identity sends a burst, disconnects, and only then the ROUTER reads: what still arrives carries that identity; "
            "component level: random histories of add_peer/update_peer_identity/remove_peer_by_read_pipe/lookups/prepare_wire_frames on the real "
            "RouterMap (identities 1..226 bytes, colliding identities included), plus the four auto-framing functions on payload "
            "shapes with empty frames in every position; oracle = per-pipe current-identity reference (applied while no two live "
            "pipes share an identity)",
    "assumptions": ["socket-level envelope handling (private methods of DEALER/ROUTER/REQ/REP) is tied to the model at stack level only"],
}


def run(ctx):
    return flow.run(ctx, SPEC)
