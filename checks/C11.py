"""C11 — ROUTER addresses by true peer identity; envelopes round-trip unchanged (map + framing part)."""
from . import flow
from . import routegen as R


def gen(rng, tier):
    n = 800 if tier == "quick" else 25000
    cases = [R.map_case(rng, rng.randrange(5, 40)) for _ in range(n)]
    payloads = ["~", "0h01", "1h01,0h02", "1-,0h02", "0-", "1-,1-,0-", "1h41,1-,0h42", "3h01,0h02"]
    for pl in payloads:
        cases.append(["env renc " + pl, "env rdec " + pl, "env denc " + pl, "env ddec " + pl])
    return cases


SPEC = {
    "components": [{"comp": "routing", "gen": gen, "oracle": R.map_oracle, "label": "routermap",
                    "nontrivial": lambda c, i: any(" " in l and l != "none" for l in i), "dist": lambda cs: {"cases": len(cs)}}],
    "search": lambda rng, tier: [("routing", gen(rng, tier), R.map_oracle)],
    "rule": "random histories of add_peer/update_peer_identity/remove_peer_by_read_pipe/lookups/prepare_wire_frames on the real "
            "RouterMap (identities 1..226 bytes, colliding identities included), plus the four auto-framing functions on payload "
            "shapes with empty frames in every position; oracle = per-pipe current-identity reference (applied while no two live "
            "pipes share an identity)",
    "assumptions": ["socket-level envelope handling (private methods of DEALER/ROUTER/REQ/REP) is tied to the model at stack level only"],
}


def run(ctx):
    return flow.run(ctx, SPEC)
