"""C03 — ZMTP framing round-trips and is independent of how the stream is cut."""
from . import flow
from . import wiregen as W


def gen_cases(rng, tier):
    n = 1500 if tier == "quick" else 40000
    cases = []
    # exhaustive-ish boundary sweep: every boundary length x every flag combination x every encoder
    for ln in W.BOUNDARY:
        for d in range(4):
            fr = "%dp%dx%d" % (d, ln, 7) if ln else "%d-" % d
            cases.append(["enc codec " + fr, "enc hdronly " + fr, "enc split " + fr,
                          "enc contig " + fr, "enc vect " + fr, "enc multipart " + fr])
            cases.append(["rt %s - -1" % fr, "rt %s 1 %d" % (fr, ln), "rt %s 2,7 -1" % fr])
    # every cut position of every header in a small corpus stream
    base = [(1, "h01"), (0, "p255x3"), (3, "p256x9"), (0, "-"), (2, "h0450494e47"), (0, "p300x1")]
    total = sum(len(W.ref_encode(f)) for f in base)
    spec = W.stream_spec(base)
    for c in range(1, min(total, 60)):
        cases.append(["dec buffer -1 %s %d" % (spec, c), "dec codec 0 %s %d" % (spec, c),
                      "dec codec %d %s -" % (c, spec), "dec rdbytes -1 %s %d" % (spec, c)])
    for _ in range(n):
        r = rng.random()
        if r < 0.35:
            msgs = [W.gen_message(rng) for _ in range(rng.choice([1, 1, 2, 3]))]
            flat = [f for m in msgs for f in m]
            tot = sum(len(W.ref_encode(f)) for f in flat)
            cuts = W.random_cuts(rng, tot, flat)
            biggest = max(len(W.payload_bytes(f[1])) for f in flat)
            mx = rng.choice([-1, -1, biggest, biggest + 1, 10 ** 9])
            cases.append(["rt %s %s %d" % (W.batch_str(msgs), W.cuts_str(cuts), mx)])
        elif r < 0.55:
            msgs = [W.gen_message(rng) for _ in range(rng.choice([1, 2, 3]))]
            b = W.batch_str(msgs)
            cases.append(["enc contig " + b, "enc vect " + b, "enc batch " + b, "enc multipart " + b] +
                         ["enc %s %s" % (e, W.frame_str(f)) for m in msgs for f in m for e in ("codec", "hdronly", "split")][:6])
        elif r < 0.8:
            frames = [W.gen_frame(rng, big_ok=False) for _ in range(rng.randrange(1, 5))]
            # optionally truncate / limit
            spec = W.stream_spec(frames)
            tot = sum(len(W.ref_encode(f)) for f in frames)
            cuts = W.cuts_str(W.random_cuts(rng, tot, frames))
            sizes = [len(W.payload_bytes(f[1])) for f in frames]
            mx = rng.choice([-1, 0, max(sizes), max(sizes) - 1 if max(sizes) else 0, min(sizes), 5])
            if rng.random() < 0.3:
                spec += "+" + W.malformed_stream(rng)
            cases.append(["dec buffer %d %s %s" % (mx, spec, cuts), "dec rdbytes %d %s %s" % (mx, spec, cuts),
                          "dec slice %d %s" % (mx, spec), "dec bytes %d %s" % (mx, spec),
                          "dec peek %d %s" % (mx, spec), "dec codec %d %s %s" % (rng.randrange(0, 4), spec, cuts)])
        else:
            spec = W.malformed_stream(rng)
            mx = rng.choice([-1, 0, 255, 2 ** 31, 2 ** 62])
            cuts = W.cuts_str([rng.randrange(1, 10) for _ in range(rng.randrange(0, 3))])
            cases.append(["dec buffer %d %s %s" % (mx, spec, cuts), "dec slice %d %s" % (mx, spec),
                          "dec bytes %d %s" % (mx, spec), "dec peek %d %s" % (mx, spec),
                          "dec codec 0 %s %s" % (spec, cuts)])
    return cases


def search_cases(rng, tier):
    cases = []
    for ln in W.BOUNDARY:
        for d in range(4):
            fr = "%dp%dx%d" % (d, ln, 11) if ln else "%d-" % d
            cases.append(["rt %s - -1" % fr])
            cases.append(["rt %s 1,1,1,1,1,1,1,1,1 -1" % fr])
    for _ in range(6000 if tier == "quick" else 60000):
        msgs = [W.gen_message(rng) for _ in range(rng.choice([1, 1, 2, 3]))]
        flat = [f for m in msgs for f in m]
        tot = sum(len(W.ref_encode(f)) for f in flat)
        cases.append(["rt %s %s -1" % (W.batch_str(msgs), W.cuts_str(W.random_cuts(rng, tot, flat)))])
    return [("wire", cases)]


def nontrivial(case, impl):
    return any(l.startswith(("ok", "rt ok", "more F", "err F", "total")) or l.startswith("err") for l in impl)


def dist(cases):
    d = {"cases": len(cases), "enc": 0, "dec": 0, "rt": 0}
    for c in cases:
        for l in c:
            d[l.split(" ", 1)[0]] = d.get(l.split(" ", 1)[0], 0) + 1
    return d


SPEC = {
    "components": [{"comp": "wire", "gen": gen_cases, "nontrivial": nontrivial, "dist": dist}],
    "search": search_cases,
    "rule": "cases = boundary sweep (17 lengths x 4 flag combinations x all encoders), every cut position of a corpus stream, "
            "then PRNG-generated batches/streams/malformed streams; a case is non-trivial if the implementation produced an "
            "encoding, at least one decoded frame, a length or a protocol error; distinct = distinct op-line tuples",
    "assumptions": ["payload lengths < 2^64 (FrameOk)", "bytes::BytesMut / Vec behave as sequences",
                    "the PRNG-driven generator decides which inputs the correspondence sees"],
}


def run(ctx):
    return flow.run(ctx, SPEC)
