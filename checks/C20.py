"""C20 — the io_uring backend is observably equivalent to the Tokio backend."""
from . import flow
from . import C01, C02, C14

URING_ENVS = [("default-pools", {"VERIF_URING": "64x16384x32x65536", "VERIF_E2E_PAR": "4"}),
              ("small-pools-zc", {"VERIF_URING": "4x4096x4x8192,zc", "VERIF_E2E_PAR": "4"}),
              ("small-pools-noms", {"VERIF_URING": "8x4096x16x65536,noms", "VERIF_E2E_PAR": "4"})]


def uringify(line, rng):
    p = line.split(" ")
    if p[0] in ("stream", "hwm"):
        p[1] = p[1].replace("tr=inproc", "tr=tcp").replace("tr=ipc", "tr=tcp")   # the backend serves tcp (and ipc) sessions
        p[1] = p[1].replace(",noise=1", "")
        extra = ",uring=1"
        if rng.random() < 0.3:
            extra += ",cork=1"
        p[2] += extra
        p[3] += ",uring=1"
    return " ".join(p)


def workloads(rng, tier):
    n = 1 if tier == "quick" else 8
    cs = [C01.one_case(rng, "quick", big_ok=(i % 5 == 0)) for i in range(14 * n)]
    cs += [C01.carry_case(rng) for _ in range(4 * n)]
    cs += [C02.mp_stream(rng, "quick") for _ in range(10 * n)]
    cs += [C14.case(rng, "quick") for _ in range(6 * n)]
    out = [[uringify(c[0], rng)] for c in cs]
    out.append(["!churn uring=1 %d 20 3000" % (24 if tier == "quick" else 120)])
    out.append(["!churn uring=1 10 6 100000"])
    out.append(["!fanin uring=1 6"])
    out.append(["!fanin uring=1 %d" % rng.choice([9, 12, 16, 32])])   # more connections than one mailbox chunk serves (repaired defect)
    out.append(["!fanin uring=1,zc=1 %d %d 8192" % (rng.choice([8, 32]), 100 if tier == "quick" else 1000)])
    # senders that close right after their last send: whatever still reaches the peer is undamaged (repaired use-after-free)
    for zc in ("", ",zc=1"):
        out.append(["!fanin rcvhwm=5000/uring=1,sndhwm=2000,linger=60000%s 32 1000 8192 closeint" % zc])
    out.append(["slowdrip type=PULL,hsivl=600,uring=1 300 hff00000000000000017f03"])   # known finding: no handshake deadline
    return out


def pool_case(rng):
    count = rng.choice([0, 1, 2, 3, 4, 8])
    cap = rng.choice([0, 16, 100])
    ops = ["pool new %d %d" % (count, cap)]
    for _ in range(rng.randrange(4, 40)):
        r = rng.random()
        if r < 0.25:
            ops.append("pool acquire %d" % rng.choice([0, 1, 16, 17, 100, 101]))
        elif r < 0.45:
            ops.append("pool lease")
        elif r < 0.65:
            ops.append("pool droplease %d %d" % (rng.randrange(0, 9), rng.randrange(2)))
        elif r < 0.9:
            ops.append("pool release %d" % rng.randrange(0, 10))
        else:
            ops.append("pool state")
    ops.append("pool state")
    return ops


def pool_oracle(case, impl):
    """the pool's own promise, on the implementation's outputs: an id handed out is not in use, the final state is consistent"""
    if impl and impl[0].startswith("setup-error"):
        return None
    last = impl[-1]
    if last.startswith("free=["):
        free = [x for x in last[6:last.index("]")].split(",") if x]
        used = last[last.index("used=[") + 6:-1]
        if len(free) != len(set(free)):
            return "key=pool-duplicate-free the free list holds a buffer twice: " + last
        for i, u in enumerate(used):
            if (u == "0") != (str(i) in free):
                return "key=pool-inconsistent buffer %d: in use=%s, on the free list=%s (%s)" % (i, u, str(i) in free, last)
    return None


def gen_pool(rng, tier):
    return [pool_case(rng) for _ in range(400 if tier == "quick" else 20000)]


def mk_components():
    comps = [{"comp": "routing", "gen": gen_pool, "oracle": pool_oracle, "label": "send-buffer-pool",
              "nontrivial": lambda c, i: any(l.isdigit() for l in i), "dist": lambda cs: {"cases": len(cs), "ops": sum(len(c) for c in cs)}}]
    for name, env in URING_ENVS:
        comps.append({"comp": "stack", "gen": workloads, "label": "uring-" + name, "shrink": False, "env": env,
                      "nontrivial": lambda c, i: any(l.startswith(("delivered=", "hwm=ok", "churn=ok", "fanin=ok", "fanin=intact")) for l in i),
                      "dist": lambda cs: {"cases": len(cs), "streams": sum(1 for c in cs if c[0].startswith("stream")),
                                          "hwm": sum(1 for c in cs if c[0].startswith("hwm")),
                                          "churn/fanin": sum(1 for c in cs if c[0].lstrip("!").startswith(("churn", "fanin")))}})
    # the reference: the same workload shapes on the Tokio backend give the same (model-predicted) results - see C01, C02, C14
    return comps


SPEC = {
    "components": mk_components(),
    "search": lambda rng, tier: [("routing", gen_pool(rng, "quick"), pool_oracle)] +
                                [("stack", workloads(rng, "quick"), None, False, env) for _, env in URING_ENVS[:2]],
    "rule": "stack level: the C01 (streams incl. the carry-over shapes), C02 (multipart, receive styles, interfering peers) and C14 (HWM, "
            "SNDTIMEO/RCVTIMEO) workloads with IO_URING_SESSION_ENABLED on both sockets over tcp, with and without TCP_CORK, run against "
            "three configurations of the process-wide backend (ample pools; 4 receive buffers of 4 KiB and 4 send buffers of 8 KiB with "
            "zero-copy send; multishot receive off): the canonical result of every scenario must be what the model predicts, i.e. what the "
            "Tokio backend gives (C01/C02/C14 run the same generators there); connection churn (24..120 connect/send/close cycles plus "
            "half-open raw peers: every message arrives, descriptors return to the baseline) and fan-in; component level: random histories "
            "of acquire / lease / hand-over / lease-drop / release on the real SendBufferPool in lock-step with the model",
    "assumptions": ["the receive ring (provided buffers) and the worker's SQE/CQE bookkeeping are exercised by the scenarios, not modelled",
                    "equivalence of everything the engine decides rests on C04's theorem (segmentation and timing of reads are the only "
                    "inputs the backends can vary)"],
}


def run(ctx):
    return flow.run(ctx, SPEC)
