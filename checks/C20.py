"""C20 — the io_uring backend is observably equivalent to the Tokio backend."""
from . import flow
from . import C01, C02, C07, C14

URING_ENVS = [("default-pools", {"VERIF_URING": "64x16384x32x65536", "VERIF_E2E_PAR": "4"}),
              ("small-pools-zc", {"VERIF_URING": "4x4096x4x8192,zc", "VERIF_E2E_PAR": "4"}),
              ("small-pools-noms", {"VERIF_URING": "8x4096x16x65536,noms", "VERIF_E2E_PAR": "4"})]


def uringify(line, rng):
    p = line.split(" ")
    if p[0] in ("stream", "hwm"):
        p[1] = p[1].replace("tr=inproc", "tr=tcp").replace("tr=ipc", "tr=tcp")   # the backend serves tcp (and ipc) sessions
        p[1] = p[1].replace(",noise=1", "")
        extra = ",uring=1"
        if rng.random() < 0.3:
            extra += ",cork=1"
        p[2] += extra
        p[3] += ",uring=1"
    return " ".join(p)


def workloads(rng, tier):
    n = 1 if tier == "quick" else 8
    cs = [C01.one_case(rng, "quick", big_ok=(i % 5 == 0)) for i in range(14 * n)]
    cs += [C01.carry_case(rng) for _ in range(4 * n)]
    cs += [C02.mp_stream(rng, "quick") for _ in range(10 * n)]
    cs += [C14.case(rng, "quick") for _ in range(6 * n)]
    out = [[uringify(c[0], rng)] for c in cs]
    out.append(["!churn uring=1 %d 20 3000" % (24 if tier == "quick" else 120)])
    out.append(["!churn uring=1 10 6 100000"])
    out.append(["!fanin uring=1 6"])
    out.append(["!fanin uring=1 %d" % rng.choice([9, 12, 16, 32])])   # more connections than one mailbox chunk serves (repaired defect)
    out.append(["!fanin uring=1,zc=1 %d %d 8192" % (rng.choice([8, 32]), 100 if tier == "quick" else 1000)])
    # senders that close right after their last send: whatever still reaches the peer is undamaged (repaired use-after-free)
    for zc in ("", ",zc=1"):
        out.append(["!fanin rcvhwm=5000/uring=1,sndhwm=2000,linger=60000%s 32 1000 8192 closeint" % zc])
    for a, b in (("uring=1", "-"), ("-", "uring=1"), ("uring=1", "uring=1"), ("uring=1,ms=0", "uring=1,ms=0")):
        out.append(["peerclose %s %s" % (a, b)])
    # hostile and malformed streams (C07's generator) against a listener served by the io_uring worker: one bad peer must not
    # take the worker - and with it every other connection of the process - down
    hostile = [c[0].split(" ") for c in C07.gen_stack_cases(rng, "thorough") if c[0].startswith("hostile")]
    for p in rng.sample(hostile, 10 if tier == "quick" else 80):
        p[1] += ",uring=1"
        out.append([" ".join(p)])
    # the io_uring side closes while its peer is still sending: the receive buffers the kernel held come back (more rounds than buffers)
    out.append(["!rchurn uring=1,ms=0 %d" % (40 if tier == "quick" else 300)])
    out.append(["!rchurn uring=1 %d" % (24 if tier == "quick" else 300)])
    out.append(["slowdrip type=PULL,hsivl=600,uring=1 300 hff00000000000000017f03"])   # the handshake deadline is enforced (repaired defect)
    # the handler closes the connection when it has to, and the peer notices: protocol errors, a silent peer with heartbeats
    # configured (a PING first), the application closing an idle connection
    hs = b"".join(b for _, b in C07.E.peer_handshake(rng, {"role": "s", "type": "PULL"}, peer_type="PUSH"))
    for ms in ("", ",ms=1"):
        out.append(["errclose role=s,type=PULL,uring=1%s %s" % (ms, C07.E.hexspec(bytes(range(1, 13)) * 6))])
        out.append(["errclose role=s,type=PULL,max=1000,uring=1%s %s" % (ms, C07.E.hexspec(hs + bytes([2]) + (5000).to_bytes(8, "big") + b"xx"))])
        out.append(["errclose role=s,type=PULL,hbivl=150,hbto=400,uring=1%s %s idle" % (ms, C07.E.hexspec(hs))])
        out.append(["errclose role=s,type=PULL,uring=1%s %s appclose" % (ms, C07.E.hexspec(hs))])
    return out


def pool_case(rng):
    count = rng.choice([0, 1, 2, 3, 4, 8])
    cap = rng.choice([0, 16, 100])
    ops = ["pool new %d %d" % (count, cap)]
    for _ in range(rng.randrange(4, 40)):
        r = rng.random()
        if r < 0.25:
            ops.append("pool acquire %d" % rng.choice([0, 1, 16, 17, 100, 101]))
        elif r < 0.45:
            ops.append("pool lease")
        elif r < 0.65:
            ops.append("pool droplease %d %d" % (rng.randrange(0, 9), rng.randrange(2)))
        elif r < 0.9:
            ops.append("pool release %d" % rng.randrange(0, 10))
        else:
            ops.append("pool state")
    ops.append("pool state")
    return ops


def pool_oracle(case, impl):
    """the pool's own promise, on the implementation's outputs: an id handed out is not in use, the final state is consistent"""
    if impl and impl[0].startswith("setup-error"):
        return None
    last = impl[-1]
    if last.startswith("free=["):
        free = [x for x in last[6:last.index("]")].split(",") if x]
        used = last[last.index("used=[") + 6:-1]
        if len(free) != len(set(free)):
            return "key=pool-duplicate-free the free list holds a buffer twice: " + last
        for i, u in enumerate(used):
            if (u == "0") != (str(i) in free):
                return "key=pool-inconsistent buffer %d: in use=%s, on the free list=%s (%s)" % (i, u, str(i) in free, last)
    return None


def gen_pool(rng, tier):
    return [pool_case(rng) for _ in range(400 if tier == "quick" else 20000)]


def trk_case(rng):
    """a history of the worker's table of in-kernel operations: submissions on a few descriptors, CloseFd completions, first
    and final completions of what the kernel holds (and a few completions it never posted).  The expected line of every
    completion - the operation it was submitted as - is computed here and kept in the op as a comment-free suffix-less list."""
    ops = ["trk new"]
    slab, free, kernel = [], [], []          # kernel: [key, fd, kind, awaiting_notification]
    for _ in range(rng.randrange(6, 60)):
        r = rng.random()
        if r < 0.42 or not kernel:
            fd = rng.randrange(3, 7)
            kind = rng.choice(["send", "vec", "read", "mread", "cancel", "zc:%d" % rng.randrange(4), "lease:%d" % rng.randrange(4)])
            if free:
                key = free.pop(0)
                slab[key] = True
            else:
                key = len(slab)
                slab.append(True)
            kernel.append([key, fd, kind, False])
            ops.append("trk submit %d %s" % (fd, kind))
        elif r < 0.55:
            ops.append("trk closefd %d" % rng.randrange(3, 7))
        elif r < 0.70:
            cands = [k for k in kernel if k[2].startswith(("zc", "lease")) and not k[3]]
            if cands:
                k = rng.choice(cands)
                k[3] = True           # the entry keeps its slot (and with it its user_data) until the notification
                ops.append("trk notify %d" % k[0])
        elif r < 0.95:
            k = kernel.pop(rng.randrange(len(kernel)))
            slab[k[0]] = False
            free.insert(0, k[0])
            ops.append("trk complete %d %d" % (k[0], 1 if k[3] else 0))
        else:
            ops.append("trk complete %d %d" % (rng.randrange(0, 40) + 100, rng.randrange(2)))     # nothing the kernel holds
        if rng.random() < 0.15:
            ops.append("trk state")
    ops.append("trk state")
    return ops


def trk_oracle(case, impl):
    """every completion must be processed with the entry of the operation it belongs to: same kind, same registered buffer, on
    the descriptor it was submitted on (or -1 once that was closed); nothing is left in the table once the kernel holds nothing"""
    kernel = {}     # (key, awaiting) -> (fd, kind)
    closed_after = {}
    for op, out in zip(case, impl):
        p = op.split(" ")
        if p[1] == "submit":
            kernel[(int(out), False)] = (p[2], p[3])
        elif p[1] == "notify":
            key = int(p[2])
            if (key, False) in kernel:
                fd, kind = kernel.pop((key, False))
                want = kind if ":" in kind else kind + (":10b" if kind in ("send", "vec") else "")
                if not (out.startswith(want + "@") and out.split("@")[1] in (fd, "-1")):
                    return "key=trk-misattributed the first completion of %s@%s (key %d) was processed with the entry %s" % (kind, fd, key, out)
                if ":" in kind:
                    kernel[(key, True)] = (fd, "lease:" + kind.split(":")[1])
                # (a first completion with more to come only exists for zero-copy sends; for anything else the entry is simply gone)
        elif p[1] == "complete":
            key, notif = int(p[2]), p[3] == "1"
            if (key, notif) in kernel:
                fd, kind = kernel.pop((key, notif))
                want = kind if ":" in kind else kind + (":10b" if kind in ("send", "vec") else "")
                if not (out.startswith(want + "@") and out.split("@")[1] in (fd, "-1")):
                    return "key=trk-misattributed the completion of %s@%s (key %d%s) was processed with the entry %s" % (
                        kind, fd, key, " notification" if notif else "", out)
            elif out != "unknown":
                return "key=trk-phantom a completion the kernel never posted (key %d) consumed the entry %s" % (key, out)
    if not kernel and case[-1] == "trk state" and impl[-1] != "":
        return "key=trk-leak the kernel holds nothing but the table still has: " + impl[-1]
    return None


def gen_trk(rng, tier):
    return [trk_case(rng) for _ in range(300 if tier == "quick" else 12000)]


def mk_components():
    comps = [{"comp": "routing", "gen": gen_trk, "oracle": trk_oracle, "label": "op-table",
              "nontrivial": lambda c, i: any("@" in l for l in i), "dist": lambda cs: {"cases": len(cs), "ops": sum(len(c) for c in cs),
                                                                                       "closefd": sum(1 for c in cs for o in c if "closefd" in o),
                                                                                       "notify": sum(1 for c in cs for o in c if "notify" in o)}},
             {"comp": "routing", "gen": gen_pool, "oracle": pool_oracle, "label": "send-buffer-pool",
              "nontrivial": lambda c, i: any(l.isdigit() for l in i), "dist": lambda cs: {"cases": len(cs), "ops": sum(len(c) for c in cs)}}]
    for name, env in URING_ENVS:
        comps.append({"comp": "stack", "gen": workloads, "label": "uring-" + name, "shrink": False, "env": env,
                      "nontrivial": lambda c, i: any(l.startswith(("delivered=", "hwm=ok", "churn=ok", "fanin=ok", "fanin=intact", "peerclose=seen", "rchurn=ok", "survived=ok", "errclose=closed", "closed=in-time")) for l in i),
                      "dist": lambda cs: {"cases": len(cs), "streams": sum(1 for c in cs if c[0].startswith("stream")),
                                          "hwm": sum(1 for c in cs if c[0].startswith("hwm")),
                                          "churn/fanin": sum(1 for c in cs if c[0].lstrip("!").startswith(("churn", "fanin")))}})
    # the reference: the same workload shapes on the Tokio backend give the same (model-predicted) results - see C01, C02, C14
    return comps


SPEC = {
    "components": mk_components(),
    "search": lambda rng, tier: [("routing", gen_trk(rng, "quick"), trk_oracle), ("routing", gen_pool(rng, "quick"), pool_oracle)] +
                                [("stack", workloads(rng, "quick"), None, False, env) for _, env in URING_ENVS[:2]],
    "rule": "stack level: the C01 (streams incl. the carry-over shapes), C02 (multipart, receive styles, interfering peers) and C14 (HWM, "
            "SNDTIMEO/RCVTIMEO) workloads with IO_URING_SESSION_ENABLED on both sockets over tcp, with and without TCP_CORK, run against "
            "three configurations of the process-wide backend (ample pools; 4 receive buffers of 4 KiB and 4 send buffers of 8 KiB with "
            "zero-copy send; multishot receive off): the canonical result of every scenario must be what the model predicts, i.e. what the "
            "Tokio backend gives (C01/C02/C14 run the same generators there); connection churn (24..120 connect/send/close cycles plus "
            "half-open raw peers: every message arrives, descriptors return to the baseline) and fan-in; component level: random histories "
            "of acquire / lease / hand-over / lease-drop / release on the real SendBufferPool in lock-step with the model; random histories of "
            "submit / CloseFd completion / first and final completions on the worker's real InternalOpTracker in lock-step with the model, "
            "with the oracle that every completion is processed with the entry of the operation it was submitted as",
    "assumptions": ["the receive ring (provided buffers) and the worker's SQE/CQE bookkeeping are exercised by the scenarios, not modelled",
                    "equivalence of everything the engine decides rests on C04's theorem (segmentation and timing of reads are the only "
                    "inputs the backends can vary)"],
}


def run(ctx):
    return flow.run(ctx, SPEC)
