"""C09 — dropping a send or recv future is safe at every await point (queue level + stack level)."""
from . import flow
from . import concgen as G


def gen_rpq(rng, tier):
    n = 500 if tier == "quick" else 15000
    return [G.rpq_case(rng, cancel=True, big=(i % 25 == 0)) for i in range(n)]


def cancel_oracle(case, impl):
    """with cancellations in the schedule: nothing returned twice, per-pipe order kept, nothing that was queued is lost,
    counters consistent at quiescence"""
    r = G.rpq_oracle([c for c in case], impl)
    return r


SPEC = {
    "components": [
        {"comp": "conc", "gen": gen_rpq, "oracle": G.rpq_oracle_cancel, "label": "rpq-cancel", "shrink": False,
         "nontrivial": lambda c, i: any(l == "done(cancelled)" for l in i), "dist": lambda cs: {"cases": len(cs)}},
    ],
    "search": lambda rng, tier: [("conc", gen_rpq(rng, tier), G.rpq_oracle_cancel, False)],
    "rule": "the C08 schedules with `cancel <task>` injected (5% of the grants): a task's future is dropped while parked at an await or "
            "before its first poll; oracle: nothing returned twice, per-pipe FIFO per consumer, every accepted item that was not taken "
            "by a cancelled consumer is still delivered, counters consistent (queued = channel length, no leaked reservation) at "
            "quiescence; non-trivial = at least one future was actually dropped",
    "assumptions": ["cancellation inside third-party futures (fibre send/recv, tokio Semaphore/Notify) is assumed safe as documented",
                    "socket-level API futures (send_multipart, REQ/REP state claims) are exercised at stack level, not proved here"],
}


def run(ctx):
    return flow.run(ctx, SPEC)
