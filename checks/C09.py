"""C09 — dropping a send or recv future is safe at every await point (queue level + stack level)."""
from . import flow
from . import concgen as G


def gen_rpq(rng, tier):
    n = 500 if tier == "quick" else 15000
    return [G.rpq_case(rng, cancel=True, big=(i % 25 == 0)) for i in range(n)]


PAIRS = [("PUSH", "PULL", "ti"), ("DEALER", "ROUTER", "ti"), ("ROUTER", "DEALER", "ti"), ("DEALER", "DEALER", "t"), ("PUB", "SUB", "ti")]
# PUB: small messages and no `fill` (a PUB whose subscriber does not read blocks instead of dropping: that is C12's known finding, not
# a matter of cancellation); what a PUB accepted may be dropped whole at a high-water mark, so the scenario does not demand arrival


def cancel_script(rng):
    """API futures of real sockets dropped after their 1st..k-th pending poll, under back-pressure and with peer traffic in between"""
    sty, rty, trs = rng.choice(PAIRS)
    tr = "tcp" if rng.choice(trs) == "t" else "inproc"
    ops = []
    sndtimeo = rng.choice([-1, 40, 150])
    if rng.random() < 0.7 and sty != "PUB":
        ops.append("fill")
    nid = 0
    for _ in range(rng.randrange(4, 11)):
        r = rng.random()
        if r < 0.30:
            ops.append("%s%d:%d%s" % (rng.choice("ccvm"), nid, rng.randrange(1, 7), rng.choice(["", "r", "r"])))
            nid += 1
        elif r < 0.45:
            # (with SNDTIMEO -1 a plain send under back-pressure rightly waits for ever: there it is a bounded number of polls too)
            ops.append("%s%d" % (rng.choice("ssu"), nid) if sndtimeo >= 0 else "%s%d:%d%s" % (rng.choice("cv"), nid, rng.randrange(3, 8), rng.choice(["", "r"])))
            nid += 1
        elif r < 0.60:
            ops.append(rng.choice(["R", "R", "F"]))
        elif r < 0.85:
            ops.append("%s:%d%s" % (rng.choice("ddf"), rng.randrange(1, 6), rng.choice(["", "s", "s"])))
        else:
            ops.append("w%d" % rng.choice([1, 5, 30]))
    return ["cancel tr=%s,%ssndtimeo=%d,sndhwm=%d,rcvhwm=%d %s %s %s" % (
        tr, "size=200," if sty == "PUB" else "", sndtimeo, rng.choice([1, 2, 5]), rng.choice([1, 2, 5]), sty, rty, ";".join(ops))]


def frame_by_frame_cases():
    """a message given to send() frame by frame whose LAST frame's future is dropped after its 1st..4th pending poll (queue full or
    not), followed by sends that must neither be glued to it nor wait for it"""
    out = []
    for sty, rty, trs in PAIRS:
        for t in trs:
            tr = "tcp" if t == "t" else "inproc"
            for k in (1, 2, 4):
                if sty == "PUB":
                    out.append(["cancel tr=%s,size=200,sndtimeo=150,sndhwm=2,rcvhwm=5 PUB SUB m0:%d;s1;R;m2:%dr;u3;R" % (tr, k, k)])
                    out.append(["cancel tr=%s,size=200,sndtimeo=-1,sndhwm=5,rcvhwm=5 PUB SUB m0:%d;c1:6r;R;m2:%d;v3:6r;R" % (tr, k, k)])
                    continue
                out.append(["cancel tr=%s,sndtimeo=150,sndhwm=1,rcvhwm=1 %s %s fill;m0:%d;s1;R;m2:%dr;u3;R" % (tr, sty, rty, k, k)])
                out.append(["cancel tr=%s,sndtimeo=-1,sndhwm=2,rcvhwm=2 %s %s m0:%d;c1:6r;m2:%d;v3:6r;R" % (tr, sty, rty, k, k)])
    return out


def gen_cancel(rng, tier):
    return frame_by_frame_cases() + [cancel_script(rng) for _ in range(40 if tier == "quick" else 1200)]


def cancel_oracle(case, impl):
    """with cancellations in the schedule: nothing returned twice, per-pipe order kept, nothing that was queued is lost,
    counters consistent at quiescence"""
    r = G.rpq_oracle([c for c in case], impl)
    return r


SPEC = {
    "components": [
        {"comp": "conc", "gen": gen_rpq, "oracle": G.rpq_oracle_cancel, "label": "rpq-cancel", "shrink": False,
         "nontrivial": lambda c, i: any(l == "done(cancelled)" for l in i), "dist": lambda cs: {"cases": len(cs)}},
        {"comp": "stack", "gen": gen_cancel, "label": "socket-futures", "shrink": False,
         "nontrivial": lambda c, i: any(l == "cancel=ok" for l in i),
         "dist": lambda cs: {"cases": len(cs), "with_fill": sum(1 for c in cs if " fill" in c[0] or ";fill" in c[0]),
                             "dropped_sends": sum(c[0].count(";c") + c[0].count(";v") + c[0].count(";m") for c in cs),
                             "dropped_recvs": sum(c[0].count(";d:") + c[0].count(";f:") for c in cs)}},
    ],
    "search": lambda rng, tier: [("conc", gen_rpq(rng, tier), G.rpq_oracle_cancel, False), ("stack", gen_cancel(rng, "quick") * 2, None, False)],
    "rule": "the C08 schedules with `cancel <task>` injected (5% of the grants): a task's future is dropped while parked at an await or "
            "before its first poll; oracle: nothing returned twice, per-pipe FIFO per consumer, every accepted item that was not taken "
            "by a cancelled consumer is still delivered, counters consistent (queued = channel length, no leaked reservation) at "
            "quiescence; non-trivial = at least one future was actually dropped; stack level: on real PUSH/PULL, DEALER/ROUTER, ROUTER/DEALER, "
            "DEALER/DEALER and PUB/SUB pairs over tcp and inproc with small high-water marks (the receiver reads only when the script says so), send(), "
            "send_multipart(), recv() and recv_multipart() futures - and the future of the LAST frame of a message given to send() frame "
            "by frame - are polled 1..6 times - the peer reading or sending in between, so that "
            "the future reaches its later await points - and then dropped; SNDTIMEO -1 / 40 / 150 ms (timeouts cancel internally); oracle: "
            "every message received is whole, none twice, what send() accepted arrives in order, what it refused does not, nothing the "
            "receiver had been given is lost, and a final exchange works",
    "assumptions": ["cancellation inside third-party futures (fibre send/recv, tokio Semaphore/Notify) is assumed safe as documented",
                    "the frame-by-frame send transaction of DEALER and ROUTER is modelled (M15 SendTx) and tied to the code by "
                    "re-extracted source-shape flags and the stack scripts, not lock-step; the other socket-level API futures are "
                    "exercised at stack level only (sampled scripts); REQ/REP state claims under dropped futures by "
                    "C10's model and scripted histories; they are not part of C09's theorems"],
}


def run(ctx):
    from . import common
    common.ENV["VERIF_E2E_PAR"] = "8"
    return flow.run(ctx, SPEC)
