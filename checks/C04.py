"""C04 — what a connection delivers depends on the bytes sent, not on read boundaries."""
from . import flow
from . import enggen as E


def transcript(rng, big=False):
    c = E.gen_cfg(rng)
    version = 2 if (rng.random() < 0.2 and c.get("plain") != 1 and c.get("zmtp2", 1) == 1) else 3
    pieces = E.peer_handshake(rng, c, version=version,
                              peer_id=bytes(rng.randrange(1, 255) for _ in range(rng.choice([0, 0, 1, 7]))) or None)
    hs = b"".join(b for _, b in pieces)
    data = b"".join(E.gen_data(rng, rng.choice([0, 1, 2, 3, 6]), big_ok=big))
    return c, hs, data


def cut_cases_for(c, hs, data, cutsets):
    """slot A gets the segmentation, slot B the whole stream in one read"""
    full = E.hexspec(hs + data)
    out = []
    for cuts in cutsets:
        out.append(["new A " + E.cfg_str(c), "new B " + E.cfg_str(c), "start A", "start B",
                    "bytes A 0 %s %s" % (full, cuts), "bytes B 0 %s -" % full, "state A", "state B"])
    return out


def gen_engine_cases(rng, tier):
    n = 250 if tier == "quick" else 6000
    cases = []
    for i in range(n):
        c, hs, data = transcript(rng, big=(i % 17 == 0))
        total = len(hs) + len(data)
        cutsets = []
        # every cut position around the end of the handshake
        span = range(max(1, len(hs) - 12), min(total, len(hs) + 12))
        ks = list(span) if tier == "thorough" else rng.sample(list(span), min(6, len(span)))
        cutsets += [str(k) for k in ks]
        # one byte at a time through the handshake, then the rest
        if total <= 400:
            cutsets.append(",".join(["1"] * (total - 1)))
        else:
            cutsets.append(",".join(["1"] * len(hs)))
        for _ in range(2):
            cutsets.append(E.W.cuts_str(E.W.random_cuts(rng, total)))
        cases += cut_cases_for(c, hs, data, cutsets)
    return cases


def engine_oracle(case, impl):
    a = E.parse_out(impl[4])
    b = E.parse_out(impl[5])
    if a is None or b is None:
        return "unparseable output"
    if a != b:
        return "cut-dependent engine output: cut=%s uncut=%s" % (impl[4][:160], impl[5][:160])
    if impl[6] != impl[7]:
        return "cut-dependent engine state: %s vs %s" % (impl[6], impl[7])
    return None


def gen_stack_cases(rng, tier):
    n = 24 if tier == "quick" else 300
    cases = []
    for i in range(n):
        c = {"role": rng.choice(["s", "s", "c"]), "type": rng.choice(["PULL", "PULL", "SUB"])}
        if rng.random() < 0.3:
            c.update({"plain": 1, "sec": 1, "user": "h75", "pass": "h70"})
        version = 2 if (rng.random() < 0.25 and c.get("plain") != 1) else 3
        hs = b"".join(b for _, b in E.peer_handshake(rng, c, version=version))
        data = b"".join(E.gen_data(rng, rng.choice([1, 2, 3]), cmds=False))
        full = E.hexspec(hs + data)
        total = len(hs) + len(data)
        ks = ["-", str(len(hs)), str(len(hs) - 1), str(len(hs) + 1), str(len(hs) + 3)]
        ks.append(E.few_cuts(rng, total, around=len(hs)))
        ks = ks if tier == "thorough" else ["-"] + rng.sample(ks[1:], 2)
        cases.append(["rawpeer %s %s %s" % (E.cfg_str(c), full, k) for k in ks])
    return cases


def stack_oracle(case, impl):
    """implementation-only: the same transcript must give the same recv() history under every segmentation"""
    if len(set(impl)) > 1:
        i = next(i for i in range(len(impl)) if impl[i] != impl[0])
        return "delivery depends on the write boundaries: cuts=%s -> %s ; cuts=%s -> %s" % (
            case[0].split(" ")[3], impl[0][:120], case[i].split(" ")[3], impl[i][:120])
    return None


def nontrivial(case, impl):
    return any("D(" in l or "H(" in l for l in impl)


def dist(cases):
    return {"cases": len(cases)}


SPEC = {
    "components": [
        {"comp": "engine", "gen": gen_engine_cases, "nontrivial": nontrivial, "dist": dist, "oracle": engine_oracle},
        {"comp": "stack", "gen": gen_stack_cases, "nontrivial": nontrivial, "dist": dist, "label": "stack-rawpeer",
         "oracle": stack_oracle},
    ],
    "search": lambda rng, tier: [("engine", gen_engine_cases(rng, tier), engine_oracle)],
    "rule": "engine: valid peer transcripts (v3 NULL/PLAIN, v2; either role; identities; 0..6 data messages incl. PING/PONG/"
            "unknown commands) fed to two real engines, one under a segmentation (every cut within +-12 bytes of the end of the "
            "handshake, one byte at a time, random) and one in a single read, outputs and state compared; stack: a raw TCP peer "
            "plays the transcript with chosen write boundaries against a real listening/connecting socket and recv() results "
            "are compared with the model's prediction; non-trivial = at least one HandshakeComplete or delivery",
    "assumptions": ["kernel TCP decides which segmentations occur in production; the theorem covers all of them",
                    "stack scenarios control write boundaries, read boundaries follow with high probability only",
                    "CURVE/NOISE transcripts are not part of the component-level correspondence (abstract mechanism in the model)"],
}


def run(ctx):
    return flow.run(ctx, SPEC)
