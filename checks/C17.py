"""C17 — reconnect back-off arithmetic (core schedule)."""
from . import flow
from . import routegen as R


def gen(rng, tier):
    return R.backoff_cases(rng, 400 if tier == "quick" else 20000)


def gen_stack(rng, tier):
    cases = []
    faults = [("inproc", "mismatch"), ("tcp", "mismatch"), ("tcp", "garbage"), ("tcp", "rst"), ("tcp", "halfgreeting"),
              ("tcp", "badframe"), ("ipc", "mismatch"), ("inproc", "none"), ("tcp", "none")]
    reps = 1 if tier == "quick" else 8
    for _ in range(reps):
        for tr, f in faults:
            cases.append(["faultlocal %s %s" % (tr, f)])
    return cases


SPEC = {
    "components": [{"comp": "routing", "gen": gen, "oracle": R.backoff_oracle, "label": "backoff",
                    "nontrivial": lambda c, i: len(set(i)) > 1, "dist": lambda cs: {"cases": len(cs)}},
                   {"comp": "stack", "gen": gen_stack, "label": "stack-faultlocal",
                    "nontrivial": lambda c, i: any("healthy" in l for l in i), "dist": lambda cs: {"cases": len(cs)}}],
    "search": lambda rng, tier: [("routing", gen(rng, tier), R.backoff_oracle)],
    "rule": "stack: a healthy PUSH->PULL pair exchanges traffic before and after a fault injected on ANOTHER connection of the same PULL "
            "socket (wrong socket type over inproc/tcp/ipc, garbage bytes, reset, half a greeting then silence, valid handshake then "
            "an oversized frame header); ReconnectState::on_connection_failure for (RECONNECT_IVL, RECONNECT_IVL_MAX, attempt) triples incl. 0, 2^31-1 ms, attempts "
            "0..33, 64, u32::MAX; oracle = start/at-most-doubling/cap/monotone; non-trivial = the schedule is not constant",
    "assumptions": ["failure locality and the connecter actor's own schedule are separate obligations (DESIGN §8 C17)"],
}


def run(ctx):
    return flow.run(ctx, SPEC)
