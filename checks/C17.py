"""C17 — reconnect back-off arithmetic (core schedule)."""
from . import flow
from . import routegen as R


def gen(rng, tier):
    return R.backoff_cases(rng, 400 if tier == "quick" else 20000)


def gen_stack(rng, tier):
    cases = []
    faults = [("inproc", "mismatch"), ("tcp", "mismatch"), ("tcp", "garbage"), ("tcp", "rst"), ("tcp", "halfgreeting"),
              ("tcp", "badframe"), ("ipc", "mismatch"), ("inproc", "none"), ("tcp", "none")]
    reps = 1 if tier == "quick" else 8
    for _ in range(reps):
        for tr, f in faults:
            cases.append(["faultlocal %s %s" % (tr, f)])
    # a connecter in its back-off while ANOTHER socket of the context closes / fails / binds and closes
    for _ in range(reps):
        for what in ("close", "connectfail", "bindclose", "none"):
            cases.append(["bystander %s %s %d" % (rng.choice(["tcp", "tcp", "ipc"]), what, rng.choice([100, 200, 400]))])
    # an ESTABLISHED connection is lost and the peer comes back on the same address: the socket - connect-only, or also
    # owning a listener of its own - reconnects by itself
    for _ in range(reps):
        for tr in ("tcp", "ipc"):
            for bind_too in (0, 1):
                cases.append(["comeback %s %d %d" % (tr, bind_too, rng.choice([100, 200]))])
    # retries never come faster than RECONNECT_IVL, however busy the rest of the context is
    for _ in range(reps):
        cases.append(["!retrypace %d 1 %d" % (rng.choice([150, 300]), 1500)])
        cases.append(["retrypace %d 0 %d" % (rng.choice([150, 300]), 1500)])
    return cases


SPEC = {
    "components": [{"comp": "routing", "gen": gen, "oracle": R.backoff_oracle, "label": "backoff",
                    "nontrivial": lambda c, i: len(set(i)) > 1, "dist": lambda cs: {"cases": len(cs)}},
                   {"comp": "stack", "gen": gen_stack, "label": "stack-faultlocal",
                    "nontrivial": lambda c, i: any("healthy" in l or l in ("bystander=ok", "retrypace=ok", "comeback=ok") for l in i), "dist": lambda cs: {"cases": len(cs)}}],
    "search": lambda rng, tier: [("routing", gen(rng, tier), R.backoff_oracle), ("stack", gen_stack(rng, "quick"), None, False)],
    "rule": "stack: a healthy PUSH->PULL pair exchanges traffic before and after a fault injected on ANOTHER connection of the same PULL "
            "socket (wrong socket type over inproc/tcp/ipc, garbage bytes, reset, half a greeting then silence, valid handshake then "
            "an oversized frame header); a PUSH whose connecter is in its back-off (peer not up yet) while another socket of the context "
            "is closed / fails to connect / binds and closes: once the peer comes up the PUSH reaches it; the number of retries reported "
            "by the monitor over 1.5 s against a dead port, with and without other sockets of the context being created and closed all "
            "the time, never exceeds what RECONNECT_IVL allows; ReconnectState::on_connection_failure for (RECONNECT_IVL, RECONNECT_IVL_MAX, attempt) triples incl. 0, 2^31-1 ms, attempts "
            "0..33, 64, u32::MAX; oracle = start/at-most-doubling/cap/monotone; non-trivial = the schedule is not constant",
    "assumptions": ["failure locality and the connecter actor's own schedule are separate obligations (DESIGN §8 C17)"],
}


def run(ctx):
    return flow.run(ctx, SPEC)
