"""C12 — SUB delivers exactly the messages its current subscriptions match (matcher part)."""
from . import flow
from . import routegen as R


def gen(rng, tier):
    n = 800 if tier == "quick" else 25000
    return [R.trie_case(rng, rng.randrange(5, 40)) for _ in range(n)]


SPEC = {
    "components": [{"comp": "routing", "gen": gen, "oracle": R.trie_oracle, "label": "trie",
                    "nontrivial": lambda c, i: any(l == "true" for l in i), "dist": lambda cs: {"cases": len(cs)}}],
    "search": lambda rng, tier: [("routing", gen(rng, tier), R.trie_oracle)],
    "rule": "random histories (5..40 ops) of subscribe/unsubscribe/matches/get_all_topics on the real SubscriptionTrie over nested, "
            "binary, empty and repeated topics; oracle = multiset-of-subscriptions reference; non-trivial = some match or removal "
            "returned true",
    "assumptions": ["concurrent match-while-modify is covered at lock granularity only (each trie node access atomic)",
                    "the filter-on-first-frame glue in SUB and the non-blocking publisher are separate obligations (see DESIGN §8 C12)"],
}


def run(ctx):
    return flow.run(ctx, SPEC)
