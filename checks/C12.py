"""C12 — SUB delivers exactly the messages its current subscriptions match (matcher part)."""
from . import flow
from . import routegen as R


def gen(rng, tier):
    n = 800 if tier == "quick" else 25000
    return [R.trie_case(rng, rng.randrange(5, 40)) for _ in range(n)]


def subhist_case(rng):
    """a SUB socket's history of subscribe / unsubscribe calls (duplicates, covered prefixes, the empty prefix, removals of the
    covering subscription), half before and half after the connection exists; then probes are published"""
    alphabet = [b"", b"a", b"ab", b"abc", b"abd", b"b", b"news", b"news/x", b"n"]
    active = []
    hist = []
    for _ in range(rng.randrange(2, 9)):
        if active and rng.random() < 0.4:
            t = rng.choice(active + [rng.choice(alphabet)])
            hist.append("-" + t.hex())
            if t in active:
                active.remove(t)
        else:
            t = rng.choice(alphabet + active)          # duplicates and covered topics on purpose
            hist.append("+" + t.hex())
            active.append(t)
    probes = [b"a", b"ab", b"abc", b"abcd", b"abd", b"b", b"c", b"news", b"news/x/y", b"n", b"zz"]
    return ["subhist %s %s %s" % (rng.choice(["tcp", "inproc"]), ";".join(hist), ";".join("h" + p.hex() for p in probes))]


def subhist_oracle(case, impl):
    """the property on the implementation's own output: a published message arrives iff some subscription that is ACTIVE at the
    end of the history (subscriptions are counted: n subscribes need n unsubscribes) is a prefix of it"""
    p = case[0].split(" ")
    if not impl[0].startswith("got="):
        return None
    active = {}
    for h in p[2].split(";"):
        if not h:
            continue
        t = bytes.fromhex(h[1:])
        if h[0] == "+":
            active[t] = active.get(t, 0) + 1
        elif active.get(t, 0) > 0:
            active[t] -= 1
    subs = [t for t, n in active.items() if n > 0]
    probes = [bytes.fromhex(x.lstrip("h")) for x in p[3].split(";")]
    want = [i for i, pr in enumerate(probes) if any(pr.startswith(t) for t in subs)]
    got = [int(x) for x in impl[0][4:].split(",") if x]
    if got != want:
        missing = [probes[i].decode("latin1") for i in want if i not in got]
        extra = [probes[i].decode("latin1") for i in got if i not in want]
        return "key=subscription-semantics active subscriptions %s: not delivered although subscribed %s, delivered although not subscribed %s" % (
            sorted(t.decode("latin1") for t in subs), missing, extra)
    return None


def gen_subhist(rng, tier):
    fixed = [["subhist tcp +6e657773;+6e657773;-6e657773 h6e6577732f78;h6e"],            # sub news; sub news; unsub news
             ["subhist tcp +61;+6162;-61 h6162;h616263;h61;h62"],                          # sub a; sub ab; unsub a
             ["subhist inproc +;+616263;- h616263;h61;h7a"]]                               # sub ""; sub abc; unsub ""
    return fixed + [subhist_case(rng) for _ in range(30 if tier == "quick" else 600)]


def gen_stack(rng, tier):
    # a subscriber that never reads: with a large SNDHWM nothing fills up; with a small one the publisher is blocked (known finding)
    return [["pubstall 1000 %d 100000" % rng.choice([30, 60])], ["pubstall 5 60 100000"]]


SPEC = {
    "components": [{"comp": "stack", "gen": gen_subhist, "oracle": subhist_oracle, "label": "subscription-histories", "shrink": False,
                    "nontrivial": lambda c, i: any(l.startswith("got=") and len(l) > 4 for l in i), "dist": lambda cs: {"cases": len(cs)}},
                   {"comp": "stack", "gen": gen_stack, "label": "stalled-subscriber", "shrink": False,
                    "nontrivial": lambda c, i: any(l == "pubstall=ok" or "key=pub-blocked" in l for l in i), "dist": lambda cs: {"cases": len(cs)}},
                   {"comp": "routing", "gen": gen, "oracle": R.trie_oracle, "label": "trie",
                    "nontrivial": lambda c, i: any(l == "true" for l in i), "dist": lambda cs: {"cases": len(cs)}}],
    "search": lambda rng, tier: [("routing", gen(rng, tier), R.trie_oracle), ("stack", gen_subhist(rng, "quick"), subhist_oracle, False)],
    "rule": "stack level: a real SUB connected to a real PUB goes through a history of subscribe / unsubscribe calls (duplicates, topics "
            "already covered by another subscription, the empty prefix, removal of the covering subscription; half of the history before "
            "the connection exists), then probe topics are published: exactly those arrive that the model's trie - fed the same history - "
            "matches; a PUB with a healthy SUB and a raw subscriber that subscribes and then never reads - the publisher must not be "
            "blocked and the healthy subscriber must get everything in order (blocked with a small SNDHWM: known finding); component "
            "level: random histories (5..40 ops) of subscribe/unsubscribe/matches/get_all_topics on the real SubscriptionTrie over nested, "
            "binary, empty and repeated topics; oracle = multiset-of-subscriptions reference; non-trivial = some match or removal "
            "returned true",
    "assumptions": ["concurrent match-while-modify is covered at lock granularity only (each trie node access atomic)",
                    "the filter-on-first-frame glue in SUB and the non-blocking publisher are separate obligations (see DESIGN §8 C12)"],
}


def run(ctx):
    return flow.run(ctx, SPEC)
