"""C12 — SUB delivers exactly the messages its current subscriptions match (matcher part)."""
from . import flow
from . import routegen as R


def gen(rng, tier):
    n = 800 if tier == "quick" else 25000
    return [R.trie_case(rng, rng.randrange(5, 40)) for _ in range(n)]


def gen_stack(rng, tier):
    # a subscriber that never reads: with a large SNDHWM nothing fills up; with a small one the publisher is blocked (known finding)
    return [["pubstall 1000 %d 100000" % rng.choice([30, 60])], ["pubstall 5 60 100000"]]


SPEC = {
    "components": [{"comp": "stack", "gen": gen_stack, "label": "stalled-subscriber", "shrink": False,
                    "nontrivial": lambda c, i: any(l == "pubstall=ok" or "key=pub-blocked" in l for l in i), "dist": lambda cs: {"cases": len(cs)}},
                   {"comp": "routing", "gen": gen, "oracle": R.trie_oracle, "label": "trie",
                    "nontrivial": lambda c, i: any(l == "true" for l in i), "dist": lambda cs: {"cases": len(cs)}}],
    "search": lambda rng, tier: [("routing", gen(rng, tier), R.trie_oracle)],
    "rule": "stack level: a PUB with a healthy SUB and a raw subscriber that subscribes and then never reads - the publisher must not be "
            "blocked and the healthy subscriber must get everything in order (blocked with a small SNDHWM: known finding); component "
            "level: random histories (5..40 ops) of subscribe/unsubscribe/matches/get_all_topics on the real SubscriptionTrie over nested, "
            "binary, empty and repeated topics; oracle = multiset-of-subscriptions reference; non-trivial = some match or removal "
            "returned true",
    "assumptions": ["concurrent match-while-modify is covered at lock granularity only (each trie node access atomic)",
                    "the filter-on-first-frame glue in SUB and the non-blocking publisher are separate obligations (see DESIGN §8 C12)"],
}


def run(ctx):
    return flow.run(ctx, SPEC)
