"""C15 — LINGER governs what happens to accepted messages at close."""
from . import flow

PAIRS = [("PUSH", "PULL"), ("PUSH", "PULL"), ("DEALER", "DEALER"), ("DEALER", "ROUTER")]


def case(rng, tier):
    sty, rty = rng.choice(PAIRS)
    tr = rng.choice(["tcp", "tcp", "ipc", "inproc"])
    if tr == "inproc" and (sty, rty) == ("DEALER", "DEALER"):
        rty = "ROUTER"
    linger = rng.choice([-1, -1, 0, 0, 1, 50, 300, 1000, 10000, 10000])
    count = rng.choice([0, 1, 5, 50, 300, 1000, 3000]) if tier == "quick" else rng.choice([0, 1, 50, 1000, 5000, 20000])
    size = rng.choice([8, 100, 4096, 20000, 100000])
    if count * size > 60_000_000:
        size = 4096
    sndhwm = rng.choice([10, 100, 1000, 100000])
    how = rng.choice(["close", "close", "term", "drop"])
    pace = rng.choice([0, 0, 0, 50, 500])
    opts = "tr=%s,how=%s,pace_us=%d" % (tr, how, pace)
    r = rng.random()
    if r < 0.35:
        opts += ",stall=1,side=bind"       # the peer does not read, and the closed socket must free its endpoint in time
        count = min(count, 3000)
    elif r < 0.5:
        opts += ",side=bind"
    return ["linger %s type=%s,linger=%d,sndhwm=%d type=%s %d %d" % (opts, sty, linger, sndhwm, rty, count, size)]


def stalled_inproc_cases(rng):
    """a peer that does not read, over inproc (where the pipe itself holds the messages at close): LINGER 0 and a bounded LINGER
    must still let the socket finish and free its name"""
    out = []
    for linger in (0, 0, 200):
        for sty, rty in (("PUSH", "PULL"), ("DEALER", "ROUTER")):
            out.append(["linger tr=inproc,how=close,stall=1,side=bind type=%s,linger=%d,sndhwm=1000 type=%s %d 1000"
                        % (sty, linger, rty, rng.choice([1, 50, 500]))])
            # a backlog beyond both high-water marks: part of it is still in the sender's own pipe when it closes
            out.append(["linger tr=inproc,how=%s,stall=1,side=bind type=%s,linger=%d,sndhwm=5 type=%s,rcvhwm=5 50 1000"
                        % (rng.choice(["close", "term"]), sty, linger, rty)])
    return out


def gen(rng, tier):
    return stalled_inproc_cases(rng) + [case(rng, tier) for _ in range(40 if tier == "quick" else 500)]


def dist(cases):
    d = {"cases": len(cases), "linger": {}, "how": {}, "transport": {}}
    for c in cases:
        p = c[0].split(" ")
        o = dict(kv.split("=") for kv in p[1].split(","))
        s = dict(kv.split("=") for kv in p[2].split(","))
        for k, v in (("linger", s["linger"]), ("how", o["how"]), ("transport", o["tr"])):
            d[k][v] = d[k].get(v, 0) + 1
    return d


SPEC = {
    "components": [{"comp": "stack", "gen": gen, "label": "linger", "shrink": False,
                    "nontrivial": lambda c, i: any(l.startswith("linger=ok") or "key=linger-lost" in l for l in i), "dist": dist}],
    "search": lambda rng, tier: [("stack", gen(rng, "quick"), None, False)],
    "rule": "stack level: a sender (PUSH, DEALER; own Context) with LINGER in {-1, 0, 1 ms..10 s} sends 0..20000 numbered, self-checking messages "
            "(8 B..100 KB, up to beyond SNDHWM and kernel buffers) and then closes at once (close(), Context::term() or handle drop) while the "
            "receiver keeps reading (paced 0..500 us per message), over tcp/ipc/inproc; oracles: what arrives is a prefix of what was accepted "
            "and every message is intact (integrity), close+term return within LINGER + 2.5 s when LINGER is bounded and the endpoint the closed sender had bound can be bound again "
            "within the same time, i.e. the socket has really finished (time), everything arrives "
            "when LINGER is -1 or at least 8 s (all; this is the known finding)",
    "assumptions": ["an 8 s LINGER is taken as 'longer than the transfer needs' for at most 60 MB over loopback",
                    "term() has an internal 10 s allowance for stragglers which is outside LINGER"],
}


def run(ctx):
    from . import common
    common.ENV["VERIF_E2E_PAR"] = "8"
    return flow.run(ctx, SPEC)
