"""C19 — heartbeats detect dead peers and never kill live ones."""
from . import flow
from . import enggen as E


def timeline_case(rng, version=3):
    c = E.gen_cfg(rng, mech="NULL", hb=True)
    if version == 2:
        c["zmtp2"] = 1
    ivl = c["hbivl"]
    tmo = c["hbto"]
    ops = ["new A " + E.cfg_str(c), "start A"]
    hs = b"".join(b for _, b in E.peer_handshake(rng, c, version=version))
    t = rng.choice([0, 5, 1000])
    ops.append("bytes A %d %s -" % (t, E.hexspec(hs)))
    n = rng.randrange(3, 14)
    for _ in range(n):
        r = rng.random()
        # time advances by amounts around the interesting boundaries
        step = rng.choice([0, 1, ivl - 1, ivl, ivl + 1, 2 * ivl, (tmo if tmo != "none" else ivl),
                           (tmo - 1 if tmo not in ("none", 0) else 1), (tmo + 1 if tmo != "none" else 3)])
        t += max(step, 0)
        if r < 0.55:
            ops.append("tick A %d" % t)
        elif r < 0.7:
            ops.append("bytes A %d %s -" % (t, E.hexspec(E.pong(bytes(rng.randrange(256) for _ in range(rng.choice([0, 2])))))))
        elif r < 0.82:
            ctx = bytes(rng.randrange(256) for _ in range(rng.choice([0, 1, 16, 17, 40])))
            ops.append("bytes A %d %s %s" % (t, E.hexspec(E.ping(rng.randrange(0, 70000) % 65536, ctx)),
                                            rng.choice(["-", "1", "3,4"])))
        elif r < 0.9:
            # malformed PING / PONG (too short), unknown command
            body = rng.choice([b"\x04PING", b"\x04PING\x00", b"\x04PON", b"\x03PIN", b"\x04PINGG"])
            ops.append("bytes A %d %s -" % (t, E.hexspec(E.frame(body, command=True))))
        else:
            ops.append("bytes A %d %s -" % (t, E.hexspec(b"".join(E.gen_data(rng, 1, cmds=False)))))
        if rng.random() < 0.3:
            ops.append("state A")
    ops.append("state A")
    return ops


def gen_cases(rng, tier):
    n = 600 if tier == "quick" else 20000
    cases = []
    for i in range(n):
        cases.append(timeline_case(rng, version=2 if i % 9 == 0 else 3))
    return cases


def oracle(case, impl):
    """Property-level reference for the heartbeat behaviour, evaluated on the implementation's own outputs."""
    cfg = dict(kv.split("=") for kv in case[0].split(" ")[2].split(","))
    ivl = None if cfg.get("hbivl", "none") == "none" else int(cfg["hbivl"])
    tmo = None if cfg.get("hbto", "none") == "none" else int(cfg["hbto"])
    data = False
    v2 = False
    waiting = False
    la = 0
    ping_at = None
    closed = False
    for op, out in zip(case, impl):
        p = op.split(" ")
        if p[0] not in ("bytes", "tick"):
            continue
        po = E.parse_out(out)
        if po is None:
            return "unparseable output: " + out[:80]
        net, app = po
        errs = [a for a in app if a.startswith("E(")]
        if p[0] == "bytes":
            now = int(p[2])
            if any(a.startswith("H(") for a in app):
                data = True
                v2 = case[2].find("7f01") > 0 and False
                la = now
            if data and not closed:
                raw = E.W.payload_bytes(p[3])
                # every complete inbound frame refreshes activity and clears the outstanding ping
                if any(x.startswith(("D(", "H(")) for x in app) or net or len(raw) >= 2:
                    la = now
                    waiting = False
                # a well-formed PING must be answered by a PONG echoing the context
                if len(raw) >= 2 and raw[0] == 4 and raw[2:7] == b"\x04PING" and len(raw) - 2 >= 7 and raw[1] == len(raw) - 2:
                    want = E.pong(raw[9:])
                    import hashlib  # noqa: F401
                    sends = [x for x in net if x.startswith("S(")]
                    if not errs and len(sends) != 1:
                        return "PING not answered by exactly one PONG: %s" % out[:120]
                    if sends and not sends[0].startswith("S(%d:" % len(want)):
                        return "PONG length does not match the PING context: %s" % out[:120]
            if errs:
                closed = True
            continue
        now = int(p[2])
        pings = [x for x in net if x.startswith("S(")]
        if closed or not data:
            if net or app:
                return "tick produced output outside the data phase: " + out[:100]
            continue
        is_v2 = "ver=v2" in " ".join(impl)
        if is_v2:
            if net or app:
                return "heartbeat activity on a ZMTP/2.0 session: " + out[:100]
            continue
        if errs:
            if not waiting or tmo is None or ping_at is None or now - ping_at < tmo:
                return "heartbeat timeout raised although no PING deadline had passed (now=%d ping_at=%s tmo=%s waiting=%s)" % (now, ping_at, tmo, waiting)
            closed = True
            continue
        if waiting and tmo is not None and ping_at is not None and now - ping_at >= tmo:
            return "dead peer not closed at tick %d (ping at %d, timeout %d)" % (now, ping_at, tmo)
        if pings:
            if ivl is None or now - la < ivl:
                return "PING sent early at %d (last activity %d, ivl %s)" % (now, la, ivl)
            if waiting:
                return "second PING while one is outstanding at %d" % now
            waiting = True
            ping_at = now
        else:
            if ivl is not None and not waiting and now - la >= ivl:
                return "PING overdue at tick %d (last activity %d, ivl %d)" % (now, la, ivl)
    return None


def nontrivial(case, impl):
    return any("S(9:" in l or "E(Timeout)" in l for l in impl)


def dist(cases):
    d = {"cases": len(cases), "tick": 0, "bytes": 0, "v2": 0}
    for c in cases:
        for l in c:
            k = l.split(" ", 1)[0]
            if k in d:
                d[k] += 1
    return d


SPEC = {
    "components": [{"comp": "engine", "gen": gen_cases, "nontrivial": nontrivial, "dist": dist, "oracle": oracle}],
    "search": lambda rng, tier: [("engine", gen_cases(rng, "thorough" if tier == "thorough" else "quick") * 1, oracle)],
    "rule": "scripted heartbeat timelines on a real ZmtpEngine (time injected through the verif accessor): handshake (v3, every 9th v2), "
            "then 3..13 tick / PONG / PING(ctx 0..40 bytes) / malformed command / data events at times stepping around ivl, 2*ivl, timeout-1/+1; "
            "non-trivial = at least one PING was emitted or a heartbeat timeout fired; distinct = distinct op sequences",
    "assumptions": ["engine time is scripted through verif_set_last_activity (the real engine stamps Instant::now())",
                    "tick frequency >= 1/ivl is provided by the session actor's interval timer (runtime, not modelled)",
                    "PONG priority inside the egress buffer is covered by the egress-buffer theorems (C01/C19 session part)"],
}


def run(ctx):
    return flow.run(ctx, SPEC)
