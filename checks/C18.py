"""C18 — encrypted connections keep data secret, detect tampering, and stay decodable."""
from . import flow


def gen(rng, tier):
    cases = []
    n = 1 if tier == "quick" else 10
    for mech in ("curve", "noise"):
        for _ in range(3 * n):
            k = rng.randrange(2, 8)
            sizes = []
            for _ in range(k):
                r = rng.random()
                if r < 0.5:
                    sizes.append(rng.choice([0, 1, 10, 100, 255, 256, 1000, 5000]))
                elif r < 0.8:
                    sizes.append(rng.choice([60000, 65490, 65509, 65510, 65511, 65519, 65520, 65535, 65536, 70000]))
                else:
                    sizes.append(rng.choice([131072, 200000, 500000]))
            cases.append(["secure %s honest %s" % (mech, ";".join(str(s) for s in sizes))])
        for _ in range(1 * n):
            cases.append(["secure %s honest 50;50;50;50;50;50 hb=%d" % (mech, rng.choice([100, 150, 250]))])
        # heartbeats while the sender's session holds a backlog of sealed records (its reader pauses): the PONGs, sealed later,
        # must not get in front of them
        for _ in range(1 * n):
            cases.append(["secure %s backlog %d %d hb=%d" % (mech, rng.choice([1500, 3000]), rng.choice([4096, 8192]), rng.choice([60, 100]))])
        for _ in range(8 * n):
            kind = rng.choice(["flip", "flip", "drop", "dup", "swap", "cut"])
            r = rng.randrange(0, 5)
            if kind in ("flip", "cut"):
                op = "%s:%d:%d" % (kind, r, rng.choice([0, 1, 2, 5, 17, 40, 57]))
            else:
                op = "%s:%d" % (kind, r)
            cases.append(["secure %s tamper %s" % (mech, op)])
        cases.append(["secure %s twice" % mech])
    return cases


def dist(cases):
    d = {"cases": len(cases), "honest": 0, "heartbeat": 0, "tamper": {}, "twice": 0, "max_size": 0}
    for c in cases:
        p = c[0].split(" ")
        if p[2] == "backlog":
            d["heartbeat"] += 1
            continue
        if p[2] == "honest":
            d["honest"] += 1
            d["heartbeat"] += len(p) > 4
            d["max_size"] = max([d["max_size"]] + [int(x) for x in p[3].split(";")])
        elif p[2] == "tamper":
            k = p[3].split(":")[0]
            d["tamper"][k] = d["tamper"].get(k, 0) + 1
        else:
            d["twice"] += 1
    return d


SPEC = {
    "components": [{"comp": "stack", "gen": gen, "label": "secure", "shrink": False,
                    "nontrivial": lambda c, i: any(l == "secure=ok" or "key=secure-repeats" in l for l in i), "dist": dist}],
    "search": lambda rng, tier: [("stack", gen(rng, "quick") + gen(rng, "quick"), None, False)],
    "rule": "stack level, both mechanisms configured through the public options, PUSH client > PULL server through a proxy that records the "
            "client's bytes: honest sessions with 2..8 messages of 0..500000 bytes around the 64 KiB record boundary (65509..65536) - all "
            "must arrive intact and in order, no application payload may be visible on the wire; the same with heartbeats every 100..250 ms "
            "and an idle pause; after the first message the proxy mutates the stream of [u16 length][ciphertext] records (flip a bit, drop, "
            "duplicate, swap two records, cut inside one) - what the server delivers must be a prefix of what was sent and nothing damaged; "
            "two sessions between the same key pairs with the same first message must not put the same record on the wire",
    "assumptions": ["ideal AEAD in the model: only the honest record number j opens in slot j (what crypto_box / ChaChaPoly achieve "
                    "computationally is not modelled)", "the CURVE and Noise_XX handshakes themselves are C05/C06's subject"],
}


def run(ctx):
    from . import common
    common.ENV["VERIF_E2E_PAR"] = "8"
    return flow.run(ctx, SPEC)
