"""C08 — a receiver never sleeps while a message is queued for it (no lost wake-ups)."""
from . import flow
from . import concgen as G


def gen_rpq(rng, tier):
    n = 500 if tier == "quick" else 15000
    return [G.rpq_case(rng, dereg=(i % 10 == 0), big=(i % 25 == 0)) for i in range(n)]


def gen_wait(rng, tier):
    n = 200 if tier == "quick" else 4000
    return [G.wait_case(rng) for _ in range(n)]


SPEC = {
    "components": [
        {"comp": "conc", "gen": gen_rpq, "oracle": G.rpq_oracle, "label": "rpq", "shrink": False,
         "nontrivial": lambda c, i: any(l.startswith("done(") and ":" in l for l in i), "dist": lambda cs: {"cases": len(cs)}},
        {"comp": "conc", "gen": gen_wait, "oracle": G.wait_oracle, "label": "notify-wait",
         "nontrivial": lambda c, i: any(l == "blocked" for l in i), "dist": lambda cs: {"cases": len(cs)}},
    ],
    "search": lambda rng, tier: [("conc", gen_rpq(rng, tier), G.rpq_oracle, False), ("conc", gen_wait(rng, tier), G.wait_oracle)],
    "rule": "real ReadyPipeQueue under the deterministic turnstile scheduler: 1..3 pipes (capacity 1..3), one scripted producer per pipe "
            "mixing send / try_send / try_send_batch, 1..2 scripted consumers mixing pop / try_pop, ready list capacity >= pipes, "
            "random schedules at schedule-point granularity (5..150 grants), occasional deregistration, then a drain phase; oracle: "
            "no loss, no duplication, per-pipe FIFO per consumer, nothing queued and no reservation left when the consumer parks; "
            "WaitGroup::wait / wait_for_connection: every interleaving of signal and wait steps; non-trivial = an item went through / "
            "the waiter actually parked",
    "assumptions": ["atomicity of each fibre channel operation and atomic RMW; interleavings finer than the schedule points are not explored",
                    "the ready list capacity is at least the number of registered pipes (the code's own precondition)"],
}


def run(ctx):
    return flow.run(ctx, SPEC)
