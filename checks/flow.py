"""The decision procedure shared by all property checks (DESIGN.md §2, §6)."""
import glob
import json
import os
import re

from . import common as C


def load_corpus(prop, comp):
    cases = []
    for p in sorted(glob.glob(os.path.join(C.VERIF, "corpus", prop, comp + "*.ops"))):
        cur = []
        for line in open(p):
            line = line.rstrip("\n")
            if line.strip() == "" or line.startswith("#"):
                if line.startswith("# ---") and cur:
                    cases.append(cur)
                    cur = []
                continue
            cur.append(line)
        if cur:
            cases.append(cur)
    return cases


def match_known(known, bad):
    """A failing case is 'known' only if it matches the specific finding (regex on the oracle line)."""
    line = bad["impl"][bad["at"]] if bad["at"] < len(bad["impl"]) else ""
    for k in known:
        m = k.get("match", {})
        if m.get("component") and m["component"] != bad["component"]:
            continue
        if m.get("impl_regex") and re.search(m["impl_regex"], line):
            if m.get("op_regex") and not re.search(m["op_regex"], bad["ops"][bad["at"]]):
                continue
            return k
    return None


def run(ctx, spec):
    """spec: dict with keys
         components: list of dict(comp, gen(rng, tier)->cases, nontrivial(case, impl)->bool, label)
         search: optional fn(rng, tier)->list of (comp, cases) used when a proof/correspondence broke
         rule: text for evidence
         extra: optional fn(ctx) for stack-level scenarios; returns list of 'bad' dicts (kind oracle)
    """
    prop = ctx.prop
    known = C.load_known(prop)
    ctx.cov["trusted_base"] = C.TRUSTED_BASE_COMMON + spec.get("trusted_base", [])
    ctx.assumptions = spec.get("assumptions", [])
    ctx.cov["rule"] = spec.get("rule", "")

    C.translate(ctx)
    proof_ok, model_ok, _ = C.lean_check(ctx, prop)
    harness_ok = C.cargo_build(ctx, spec.get("bins", ("corr", "e2e")))

    bads = []
    if harness_ok and C.model_available():
        for comp in spec["components"]:
            cases = load_corpus(prop, comp["comp"]) + comp["gen"](ctx.rng, ctx.tier)
            ctx.cov["distribution"][comp.get("label", comp["comp"])] = comp.get("dist", lambda cs: {})(cases)
            bads += C.corr_component(ctx, comp["comp"], cases, comp.get("nontrivial"), label=comp.get("label"),
                                     oracle=comp.get("oracle"), shrink=comp.get("shrink", True), env=comp.get("env"))
    elif harness_ok:
        ctx.broken.append("model driver missing (lean build failed)")
    if harness_ok and spec.get("extra"):
        bads += spec["extra"](ctx)

    # known-finding witnesses are replayed on the implementation on every run
    if harness_ok:
        for k in known:
            w = k.get("witness")
            if not w:
                # no deterministic witness exists: the finding is announced with what is known about it
                ctx.known_hits.append("%s: %s" % (k["key"], k["what"]))
                continue
            if w.get("kind") == "valgrind":
                # memory-safety witness: the ops are replayed on the implementation under valgrind memcheck
                import subprocess
                env = dict(C.ENV)
                env.update(w.get("env", {}))
                ops = open(os.path.join(C.VERIF, w["ops_file"])).read()
                try:
                    pr = subprocess.run(["valgrind", "-q", "--error-exitcode=9", C.CORR, w["component"]], input=ops,
                                        capture_output=True, text=True, env=env, timeout=300)
                    still = pr.returncode == 9 and w.get("expect_stderr", "") in pr.stderr
                except Exception as e:  # valgrind missing: the finding cannot be re-confirmed on this host
                    ctx.notes.append("valgrind witness for %s could not run: %r" % (k["key"], e))
                    still = True
                if still:
                    ctx.known_hits.append("%s: %s" % (k["key"], k["what"]))
                else:
                    ctx.notes.append("known finding %s no longer reproduces under valgrind" % k["key"])
                continue
            rc, impl, _ = C.run_bin(C.CORR if w.get("bin", "corr") == "corr" else C.E2E, [w["component"]], w["ops"], env=w.get("env"))
            if "expect" in w:
                still = list(impl) == list(w["expect"])
            else:
                still = any(re.search(k["match"]["impl_regex"], l) for l in impl)
            if still:
                ctx.known_hits.append("%s: %s" % (k["key"], k["what"]))
            else:
                ctx.notes.append("known finding %s no longer reproduces (witness gives %s)" % (k["key"], impl))

    found_input = False
    reported_keys = set()
    for bad in bads:
        k = match_known(known, bad) if bad["kind"] == "oracle" else None
        if k is not None and k.get("match", {}).get("only_if_not_reproducible"):
            # a finding that is known only by its symptom (a rare, timing-dependent stall): the failing case is replayed
            # alone; if it fails again even once it is NOT that finding, and is reported
            again = 0
            n = int(k["match"]["only_if_not_reproducible"])
            for _ in range(n):
                rc, impl2, _e = C.run_bin(C.E2E if bad["component"] == "stack" else C.CORR, [bad["component"]], bad["ops"], env=bad.get("env"))
                if rc != 0 or any(l.startswith("ORACLE-FAIL") or l in ("PANIC", "HARNESS-DIED") for l in impl2):
                    again += 1
                    break
            if again:
                k = None
            else:
                ctx.known_hits.append("%s: seen in this run and not reproducible in %d replays of the same case (%s -> %s)" % (
                    k["key"], n, bad["ops"][bad["at"]][:160], bad["impl"][bad["at"]][:160]))
        if k is not None:
            ctx.cov["oracle_failures"] += 0
            continue
        if bad["kind"] == "oracle":
            ctx.cov["oracle_failures"] += 1
            if len([v for v in ctx.violations]) >= 5:
                continue
            b = C.shrink_case(ctx, bad["component"], bad) if bad.get("shrinkable", True) and harness_ok else bad
            b.pop("oracle", None)
            ctx.violation("oracle%d" % len(ctx.violations), {
                "kind": "implementation fails the property oracle", "component": b["component"], "ops": b["ops"],
                "impl": b["impl"], "model": b.get("model"), "detail": b.get("detail")},
                what="oracle failure")
            found_input = True
        else:
            ctx.cov["model_disagreements"] += 1

    disagreements = [b for b in bads if b["kind"] == "disagree"]
    need_search = (not proof_ok) or disagreements or any(x.startswith("translator") or x.startswith("harness build")
                                                         for x in ctx.broken)
    if need_search and not found_input:
        # Something that ties the theorems to the code broke.  Look for a concrete failing input with the
        # implementation-side oracle (bigger budget), before reporting.
        hit = None
        if harness_ok and spec.get("search"):
            for item in spec["search"](ctx.rng, ctx.tier):
                comp, cases = item[0], item[1]
                sb = C.corr_component(ctx, comp, cases, None, label="search:" + comp,
                                      oracle=item[2] if len(item) > 2 else None,
                                      shrink=item[3] if len(item) > 3 else True,
                                      env=item[4] if len(item) > 4 else None)
                sb = [b for b in sb if b["kind"] == "oracle" and match_known(known, b) is None]
                if sb:
                    hit = C.shrink_case(ctx, comp, sb[0])
                    break
        if hit is not None:
            ctx.violation("search", {
                "kind": "failing input found by search after a proof obligation / correspondence broke",
                "broken": ctx.broken, "component": hit["component"], "ops": hit["ops"], "impl": hit["impl"],
                "model": hit.get("model")}, what="search hit")
        else:
            first = None
            if disagreements and harness_ok:
                first = C.shrink_case(ctx, disagreements[0]["component"], disagreements[0])
            ctx.violation("unproved", {
                "kind": "property no longer shown to hold; no failing input found",
                "no_longer_checks": ctx.broken or ["correspondence corr %s" % disagreements[0]["component"]],
                "first_disagreement": None if first is None else {
                    "component": first["component"], "ops": first["ops"], "impl": first["impl"], "model": first["model"]},
            }, no_input=True, what="broken obligation")
    return C.finish(ctx)


def replay(ctx, path):
    data = json.load(open(path))
    ops = data.get("ops") or (data.get("first_disagreement") or {}).get("ops")
    comp = data.get("component") or (data.get("first_disagreement") or {}).get("component")
    if not ops:
        print("replay file names obligations that no longer check:", data.get("no_longer_checks"))
        return 0
    C.cargo_build(ctx)
    (impl, model), = C.run_pair(ctx, comp, [ops])
    for o, i, m in zip(ops, impl, model):
        print("op   :", o[:200])
        print(" impl:", i[:300])
        print(" model:", m[:300])
    bad = any(l.startswith("ORACLE-FAIL") or l == "PANIC" for l in impl) or impl != model
    print("REPLAY:", "still failing" if bad else "passes now")
    return 1 if bad else 0
