"""C14 — high-water marks bound buffering and SNDTIMEO/RCVTIMEO mean what they say."""
from . import flow

PAIRS = [("PUSH", "PULL"), ("PUSH", "PULL"), ("DEALER", "DEALER"), ("DEALER", "ROUTER"), ("ROUTER", "DEALER")]


def case(rng, tier, hold=None):
    sty, rty = rng.choice(PAIRS)
    tr = rng.choice(["tcp", "tcp", "ipc", "inproc"])
    if tr == "inproc" and (sty, rty) == ("DEALER", "DEALER"):
        rty = "ROUTER"
    sndhwm = rng.choice([1, 2, 3, 5, 10, 50])
    rcvhwm = rng.choice([1, 2, 5, 10, 50])
    sndtimeo = rng.choice([-1, 0, 0, 30, 100, 250, 500])
    rcvtimeo = rng.choice([-1, 0, 0, 20, 100, 300])
    size = rng.choice([1000, 20000, 100000, 200000, 500000])
    if sndhwm + rcvhwm > 60:
        size = max(size, 100000)
    scfg = "type=%s,sndhwm=%d,sndtimeo=%d" % (sty, sndhwm, sndtimeo)
    if rng.random() < 0.4:
        scfg += ",sbc=%d,sbb=%d" % (rng.choice([1, 2, 8, 64]), rng.choice([1000, 65536]))
    if sty == "ROUTER":
        scfg += ",mandatory=1"
    rcfg = "type=%s,rcvhwm=%d,rcvtimeo=%d" % (rty, rcvhwm, rcvtimeo)
    if sty == "ROUTER":
        rcfg += ",id=h6465616c"
    if tr != "inproc" and rng.random() < 0.8:
        # small kernel buffers, so that the bound measures rzmq's own buffering rather than the kernel's autotuning
        scfg += ",sndbuf=65536"
        rcfg += ",rcvbuf=65536"
    opts = "tr=%s" % tr
    if hold:
        opts += ",hold=%d" % hold
    return ["hwm %s %s %s %d" % (opts, scfg, rcfg, size)]


def long_wait_cases():
    """SNDTIMEO -1 really waits: beyond the 30 s after which the earlier code gave up (tcp/ipc sessions)"""
    out = []
    for tr in ("tcp", "ipc"):
        for sty, rty, extra in (("ROUTER", "DEALER", ",id=h6465616c"), ("PUSH", "PULL", "")):
            out.append(["hwm tr=%s,hold=31500 type=%s,sndhwm=3,sndtimeo=-1%s type=%s,rcvhwm=2,rcvtimeo=0%s 200000"
                        % (tr, sty, ",mandatory=1" if sty == "ROUTER" else "", rty, extra)])
    return out


def gen(rng, tier):
    cases = [case(rng, tier) for _ in range(36 if tier == "quick" else 500)]
    if tier == "thorough":
        cases += long_wait_cases()
    return cases


def dist(cases):
    d = {"cases": len(cases), "sndtimeo": {}, "rcvtimeo": {}, "transport": {}, "pairs": {}}
    for c in cases:
        p = c[0].split(" ")
        s = dict(kv.split("=") for kv in p[2].split(","))
        r = dict(kv.split("=") for kv in p[3].split(","))
        o = dict(kv.split("=") for kv in p[1].split(","))
        for k, v in (("sndtimeo", s["sndtimeo"]), ("rcvtimeo", r["rcvtimeo"]), ("transport", o["tr"]), ("pairs", s["type"] + ">" + r["type"])):
            d[k][v] = d[k].get(v, 0) + 1
    return d


def late_option_cases(rng, tier):
    """SNDTIMEO is changed while the connection exists and the queue is full: the next send honours the NEW value"""
    out = []
    for sty, rty in (("PUSH", "PULL"), ("DEALER", "ROUTER"), ("ROUTER", "DEALER")):
        for tr in ("tcp", "inproc"):
            out.append(["cancel tr=%s,sndtimeo=-1,sndhwm=%d,rcvhwm=2 %s %s fill;T%d;s7;R" % (tr, rng.choice([1, 3]), sty, rty, rng.choice([40, 120]))])
    out.append(["cancel tr=tcp,sndtimeo=60,sndhwm=2,rcvhwm=2 PUSH PULL fill;T-1;c7:5;R;R"])
    return out


SPEC = {
    "components": [{"comp": "stack", "gen": gen, "label": "hwm", "shrink": False,
                    "nontrivial": lambda c, i: any(l == "hwm=ok" for l in i), "dist": dist},
                   {"comp": "stack", "gen": late_option_cases, "label": "sndtimeo-changed-later", "shrink": False,
                    "nontrivial": lambda c, i: any(l == "cancel=ok" for l in i), "dist": lambda cs: {"cases": len(cs)}}],
    "search": lambda rng, tier: [("stack", long_wait_cases() + gen(rng, "quick"), None, False)],
    "rule": "stack level: a sender (PUSH, DEALER, ROUTER mandatory) with SNDHWM 1..50 and SNDTIMEO in {-1, 0, 30..500 ms} sends numbered messages "
            "(1 KB..500 KB) to a receiver (RCVHWM 1..50) that does not read, over tcp/ipc/inproc: (A) recv() on the empty receiver honours "
            "RCVTIMEO (error class, not before the interval, at most 600 ms after it); (B) the first refused send honours SNDTIMEO the same way, "
            "a send with SNDTIMEO -1 stays blocked (600 ms; 31.5 s in the thorough tier) and completes once the receiver drains; the number "
            "accepted stays within 2*SNDHWM + SNDBATCH_COUNT + RCVHWM + read/kernel allowances; (C) the receiver then gets exactly the "
            "accepted messages in order and never a refused one; (D) SNDTIMEO changed from -1 to 40/120 ms while the connection exists and its "
            "queue is full: the next send returns within the new interval (PUSH does; DEALER and ROUTER keep the value their connection was "
            "created with - known finding)",
    "assumptions": ["timing slack of 600 ms for a loaded host; kernel socket buffers are allowed 8 MiB",
                    "the decision functions of the model stand for the try_send / timed send / waiting send branches matched by pattern in "
                    "iface.rs, inproc/connection.rs, io_uring zmtp_handler.rs and anonymous_ingress.rs"],
}


def run(ctx):
    from . import common
    common.ENV["VERIF_E2E_PAR"] = "6"      # the scenarios measure time: keep the host lightly loaded
    return flow.run(ctx, SPEC)
