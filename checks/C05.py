"""C05 — handshakes converge, agree, and give one verdict on compatibility."""
from . import flow
from . import enggen as E

RFC_PAIRS = set()
for a, bs in E.PARTNER.items():
    for b in bs:
        RFC_PAIRS.add((a, b))


def pair_cfgs(rng):
    ta = rng.choice(E.TYPES)
    tb = rng.choice(E.PARTNER[ta]) if rng.random() < 0.6 else rng.choice(E.TYPES)
    mech = rng.choice(["NULL", "NULL", "PLAIN"])
    a = {"role": "s", "type": ta}
    b = {"role": "c", "type": tb}
    if rng.random() < 0.5:
        a, b = b, a
        a["role"], b["role"] = "s", "c"
    for c in (a, b):
        r = rng.random()
        if r < 0.3:
            c["id"] = "p%dx%d" % (rng.choice([1, 3, 255]), rng.randrange(1, 200))
    creds_equal = True
    mech_b = mech
    if mech == "PLAIN":
        for c in (a, b):
            c.update({"plain": 1, "sec": 1, "user": "h616c696365", "pass": "h7365637265"})
        if rng.random() < 0.3:
            b["pass" if rng.random() < 0.5 else "user"] = "h626f62"
            creds_equal = False
    if rng.random() < 0.15:
        # mechanism mismatch
        if mech == "PLAIN":
            for k in ("plain", "sec", "user", "pass"):
                b.pop(k, None)
            mech_b = "NULL"
        else:
            b.update({"plain": 1, "sec": 1, "user": "h61", "pass": "h62"})
            mech_b = "PLAIN"
    expect_ok = (a["type"], b["type"]) in RFC_PAIRS and mech == mech_b and creds_equal
    return a, b, expect_ok


def schedule(rng):
    ops = []
    for _ in range(rng.randrange(0, 30)):
        ops.append("deliver %s %d 0" % (rng.choice(["ab", "ba"]), rng.choice([1, 1, 2, 5, 10, 11, 53, 64, 0])))
    if rng.random() < 0.25:
        ops = ["deliver %s 1 0" % rng.choice(["ab", "ba"]) for _ in range(rng.randrange(50, 300))]
    for _ in range(8):
        ops += ["deliver ab 0 0", "deliver ba 0 0"]
    return ops


def gen_cases(rng, tier):
    n = 600 if tier == "quick" else 20000
    cases = []
    for _ in range(n):
        a, b, ok = pair_cfgs(rng)
        cases.append(["note %s" % ("compatible" if ok else "incompatible"), "new A " + E.cfg_str(a), "new B " + E.cfg_str(b),
                      "pstart"] + schedule(rng) + ["state A", "state B"])
    return cases


def idhex(c):
    v = c.get("id")
    return "none" if not v else "h" + E.W.payload_bytes(v).hex()


def oracle(case, impl):
    ca = dict(kv.split("=") for kv in case[1].split(" ")[2].split(","))
    cb = dict(kv.split("=") for kv in case[2].split(" ")[2].split(","))
    hs_a, hs_b = [], []
    for op, out in zip(case, impl):
        if op.startswith("deliver"):
            i = out.find("app=[")
            acts = out[i + 5:-1].split(" ") if i >= 0 and out[i + 5:-1] else []
            (hs_b if op.split(" ")[1] == "ab" else hs_a).extend(a for a in acts if a.startswith("H("))
    sa, sb = impl[-2], impl[-1]
    if case[0] == "note compatible":
        if "phase=data" not in sa or "phase=data" not in sb:
            return "key=no-convergence compatible endpoints did not both reach the data phase: A[%s] B[%s]" % (sa, sb)
        want_a = "H(id=%s,type=h%s)" % (idhex(cb), cb["type"].encode().hex())
        want_b = "H(id=%s,type=h%s)" % (idhex(ca), ca["type"].encode().hex())
        if hs_a != [want_a] or hs_b != [want_b]:
            return "key=disagree endpoints disagree on peer type/identity: A saw %s (want %s), B saw %s (want %s)" % (hs_a, want_a, hs_b, want_b)
        if "ver=v3" not in sa or "ver=v3" not in sb:
            return "key=version two rzmq endpoints did not agree on ZMTP/3"
    else:
        if "phase=data" in sa and "phase=data" in sb:
            return "key=incompatible-accepted incompatible endpoints both completed the handshake: %s | %s" % (case[1], case[2])
        if "phase=closed" not in sa and "phase=closed" not in sb:
            return "key=incompatible-stuck incompatible endpoints: neither side failed (both would wait forever): A[%s] B[%s]" % (sa, sb)
    return None


def gen_stack_cases(rng, tier):
    cases = []
    types = E.RZMQ_TYPES
    pairs = [(a, b) for a in types for b in types]
    if tier == "quick":
        pairs = rng.sample(pairs, 20)
    for a, b in pairs:
        for tr in (["tcp", "inproc"] if tier == "quick" else ["tcp", "ipc", "inproc"]):
            cases.append(["compat %s type=%s type=%s" % (tr, a, b)])
    # mechanism / credentials
    cases.append(["compat tcp type=PULL,plain=1,role=s,user=h61,pass=h62 type=PUSH,plain=1,role=c,user=h61,pass=h62"])
    cases.append(["compat tcp type=PULL,plain=1,role=s,user=h61,pass=h62 type=PUSH,plain=1,role=c,user=h61,pass=h63"])
    cases.append(["compat tcp type=PULL,plain=1,role=s,user=h61,pass=h62 type=PUSH"])
    cases.append(["compat tcp type=PULL type=PUSH,plain=1,role=c,user=h61,pass=h62"])
    return cases


def stack_oracle(case, impl):
    p = case[0].split(" ")
    ca = dict(kv.split("=") for kv in p[2].split(","))
    cb = dict(kv.split("=") for kv in p[3].split(","))
    # the binder is the listener: pair (binder type, connector type)
    ok = (ca["type"], cb["type"]) in RFC_PAIRS and ca.get("plain") == cb.get("plain") and \
        (ca.get("user"), ca.get("pass")) == (cb.get("user"), cb.get("pass"))
    got = impl[0]
    if p[1] == "inproc":
        want = "bind=- conn=%s" % ("ok" if ok else "no")
        if got != want:
            return "key=inproc-verdict-differs:%s-%s over inproc %s, over ZMTP the pair is %s" % (
                cb["type"], ca["type"], got, "accepted" if ok else "refused")
    else:
        want = "bind=%s conn=%s" % (("ok", "ok") if ok else ("no", "no"))
        if got != want:
            return "key=%s-verdict-differs:%s-%s got %s want %s" % (p[1], cb["type"], ca["type"], got, want)
    return None


def nontrivial(case, impl):
    return any("H(" in l or "E(" in l or "conn=" in l for l in impl)


SPEC = {
    "components": [
        {"comp": "engine", "gen": gen_cases, "oracle": oracle, "nontrivial": nontrivial, "label": "pair",
         "dist": lambda cs: {"cases": len(cs), "compatible": sum(1 for c in cs if c[0] == "note compatible")}},
        {"comp": "stack", "gen": gen_stack_cases, "oracle": stack_oracle, "nontrivial": nontrivial, "label": "stack-compat",
         "dist": lambda cs: {"cases": len(cs)}},
    ],
    "search": lambda rng, tier: [("engine", gen_cases(rng, tier), oracle)],
    "rule": "pair mode: two real engines wired back to back, 11x11 socket type names x NULL/PLAIN x credentials equal/unequal x mechanism "
            "mismatch x routing id absent/1/3/255 bytes x which side listens, under random delivery schedules (direction, 1/2/5/10/11/53/64/all "
            "bytes, also one byte at a time), then flushed; oracle: compatible => both in data, each reports the other's type and identity, "
            "v3; incompatible => not both complete and at least one closed; stack: bind/connect over tcp/ipc/inproc for socket-type pairs "
            "and PLAIN credential combinations, verdict compared with the RFC pairing table; non-trivial = a handshake completed or failed",
    "assumptions": ["transports deliver bytes (progress of a real connection also needs the kernel to do so)",
                    "end-of-stream propagation to the peer of a failed endpoint is performed by the session driver (observed at stack level)"],
}


def run(ctx):
    return flow.run(ctx, SPEC)
