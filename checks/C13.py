"""C13 — PUSH/DEALER give each message to exactly one ready peer, fairly (load-balancer part)."""
from . import flow
from . import routegen as R


def gen(rng, tier):
    n = 800 if tier == "quick" else 25000
    return [R.lb_case(rng, rng.randrange(5, 40)) for _ in range(n)]


SPEC = {
    "components": [{"comp": "routing", "gen": gen, "oracle": R.lb_oracle, "label": "lb",
                    "nontrivial": lambda c, i: sum(1 for l in i if l.isdigit()) >= 3, "dist": lambda cs: {"cases": len(cs)}}],
    "search": lambda rng, tier: [("routing", gen(rng, tier), R.lb_oracle)],
    "rule": "random histories of add/remove/get_next on the real LoadBalancer (1..5 peers, re-adds, removal of the peer under the "
            "cursor / before / after it); oracle = cyclic-order reference; non-trivial = at least 3 selections",
    "assumptions": ["readiness-aware sweep of the orchestrator and the wait-for-first-peer path are separate obligations (DESIGN §8 C13)"],
}


def run(ctx):
    return flow.run(ctx, SPEC)
