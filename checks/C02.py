"""C02 — multipart messages stay whole, contiguous and correctly flagged."""
from . import flow
from . import C01
from . import enggen as E


def rand_msg(rng, seed):
    k = rng.choice([1, 1, 2, 2, 3, 5, 8])
    parts = []
    for i in range(k):
        sz = rng.choice([0, 0, 1, 2, 5, 255, 256, 300])
        body = "p%dx%d" % (sz, seed * 11 + i) if sz else "-"
        parts.append(("1" if i < k - 1 else "0") + body)
    return ",".join(parts)


def stash_case(rng):
    ops = ["stash new"]
    live = []
    nxt = 1
    seed = 1
    for _ in range(rng.randrange(6, 40)):
        r = rng.random()
        if r < 0.12 or not live:
            ops.append("stash pipe %d %d" % (nxt, rng.choice([1, 2, 4, 8])))
            live.append(nxt)
            nxt += 1                      # ids are never reused (a re-registered id gets a fresh slot in the real queue)
        elif r < 0.45:
            ops.append("stash put %d %s" % (rng.choice(live), rand_msg(rng, seed)))
            seed += 1
        elif r < 0.7:
            ops.append("stash recv")
        elif r < 0.9:
            ops.append("stash recvmp")
        elif r < 0.97:
            p = rng.choice(live)
            live.remove(p)
            ops.append("stash dereg %d" % p)
        else:
            ops.append("stash put %d %s" % (rng.randrange(1, nxt + 1), rand_msg(rng, seed)))
            seed += 1
    for _ in range(rng.randrange(0, 12)):
        ops.append(rng.choice(["stash recv", "stash recvmp"]))
    return ops


def stash_oracle(case, impl):
    """the property on the implementation's own outputs: the frames handed out, in order, regroup into exactly the
    queued messages (each once, contiguous, flags as queued), and a recv_multipart result always ends a message"""
    queued = []
    frames = []
    for op, out in zip(case, impl):
        p = op.split(" ")
        if p[1] == "put" and out == "ok":
            queued.append(p[3])
        elif p[1] == "recv" and out.startswith("F"):
            frames.append(out)
        elif p[1] == "recvmp" and out.startswith("["):
            fs = [x for x in out[1:-1].split(",") if x]
            if not fs or not fs[-1].startswith("F0:"):
                return "key=mp-not-whole recv_multipart returned %s" % out
            frames.extend(fs)
    # regroup the frame stream at the frames without MORE
    msgs, cur = [], []
    for f in frames:
        cur.append(f)
        if f.startswith("F0:"):
            msgs.append(cur)
            cur = []
    import hashlib  # noqa: F401  (summaries are compared structurally: flag + length)

    def shape(spec):
        out = []
        for fr in spec.split(","):
            flag = fr[0]
            body = fr[1:]
            ln = 0 if body == "-" else int(body[1:].split("x")[0])
            out.append((flag, ln))
        return out

    want = [shape(q) for q in queued]
    for m in msgs:
        got = [(f[1], int(f.split(":")[1])) for f in m]
        if got in want:
            want.remove(got)
        else:
            return "key=not-a-queued-message frames %s are not one of the queued messages (shapes %s)" % (m, want[:4])
    return None


def gen_stash(rng, tier):
    return [stash_case(rng) for _ in range(600 if tier == "quick" else 20000)]


PAIRS = [("PUSH", "PULL"), ("DEALER", "DEALER"), ("DEALER", "ROUTER"), ("ROUTER", "DEALER")]


def mp_stream(rng, tier):
    sty, rty = rng.choice(PAIRS)
    tr = rng.choice(["tcp", "tcp", "ipc", "inproc"])
    if tr == "inproc" and (sty, rty) == ("DEALER", "DEALER"):
        rty = "ROUTER"
    n = rng.choice([4, 8, 15]) if tier == "quick" else rng.choice([5, 20, 60])
    msgs = []
    for i in range(n):
        m = rand_msg(rng, i + 1)
        if rng.random() < 0.3:          # flags left unset by the caller: the socket must normalise them
            m = ",".join("0" + fr[1:] for fr in m.split(","))
        msgs.append(m)
    opts = "tr=%s,rt=%s,when=after,style=%s,pace=%d" % (tr, rng.choice(["ct", "mt"]), rng.choice(["mp", "fr", "mix", "mix"]), rng.choice([0, 0, 1]))
    if rng.random() < 0.5:
        opts += ",noise=1"
    scfg = "type=%s" % sty + (",mandatory=1" if sty == "ROUTER" else "")
    rcfg = "type=%s" % rty + (",id=h6465616c" if sty == "ROUTER" else "")
    return ["stream %s %s %s %s" % (opts, scfg, rcfg, ";".join(msgs))]


def gen_stack(rng, tier):
    cases = [mp_stream(rng, tier) for _ in range(30 if tier == "quick" else 400)]
    for tr in ("tcp", "ipc", "inproc"):
        for sty, rty in (("PUSH", "PULL"), ("DEALER", "ROUTER"), ("DEALER", "DEALER")):
            if tr == "inproc" and rty == "DEALER":
                continue
            for ev in ("detach", "attach"):
                cases.append(["partialread %s %s %s %s" % (tr, sty, rty, ev)])
    # a raw peer puts k frames of one message on the wire towards a socket that adds an identity frame of its own (ROUTER,
    # manual framing so that nothing is stripped) and one that does not (PULL)
    for rty, peer, extra in (("ROUTER", "DEALER", {"autodelim": 0}), ("ROUTER", "ROUTER", {"autodelim": 0}), ("PULL", "PUSH", {})):
        for k in (253, 254, 255, 256):
            c = {"role": "s", "type": rty}
            c.update(extra)
            hs = b"".join(b for _, b in E.peer_handshake(rng, c, peer_type=peer))
            data = b"".join(E.frame(b"x" if i == 0 else b"y", more=(i < k - 1)) for i in range(k)) + E.frame(b"after")
            cases.append(["rawpeer %s %s -" % (E.cfg_str(c), E.hexspec(hs + data))])
    # a ROUTER message sent frame by frame while ANOTHER peer of the ROUTER disconnects or connects in the middle of it
    for tr in ("tcp", "inproc"):
        for what in ("close", "connect"):
            cases.append(["routerframes %s %d %s" % (tr, 3, what)])
    # messages sent FRAME BY FRAME with send() to several peers must reach one peer each, whole
    for sty, rty in (("PUSH", "PULL"), ("DEALER", "DEALER"), ("DEALER", "ROUTER")):
        for peers in (1, 2, 3):
            cases.append(["framewise %s %s %d %d" % (sty, rty, peers, rng.choice([4, 6, 9]))])
    for n in (1, 2, 3, 200, 252, 253, 254, 255, 256, 257, 300, 1000):
        for tr, s, r in (("tcp", "PUSH", "PULL"), ("tcp", "DEALER", "ROUTER"), ("inproc", "PUSH", "PULL"), ("tcp", "DEALER", "DEALER")):
            if tier == "quick" and n in (2, 200, 257, 1000) and s != "PUSH":
                continue
            cases.append(["bigmulti %s type=%s type=%s %d" % (tr, s, r, n)])
    return cases


SPEC = {
    "components": [{"comp": "routing", "gen": gen_stash, "oracle": stash_oracle, "label": "stash",
                    "nontrivial": lambda c, i: any(l.startswith("F1:") for l in i),
                    "dist": lambda cs: {"cases": len(cs), "ops": sum(len(c) for c in cs), "detaches": sum(sum(1 for o in c if " dereg " in o) for c in cs)}},
                   {"comp": "stack", "gen": gen_stack, "label": "multipart-stack", "shrink": False,
                    "nontrivial": lambda c, i: any(l.startswith(("delivered=", "frames=", "outcome=")) for l in i),
                    "dist": lambda cs: {"cases": len(cs), "streams": sum(1 for c in cs if c[0].startswith("stream")),
                                        "partialread": sum(1 for c in cs if c[0].startswith("partialread")),
                                        "bigmulti": sum(1 for c in cs if c[0].startswith("bigmulti"))}}],
    "search": lambda rng, tier: [("routing", gen_stash(rng, "quick"), stash_oracle), ("stack", gen_stack(rng, "quick"), None, False)],
    "rule": "component level: random histories (6..50 ops) of pipe registration, message arrival (1..8 frames, empty frames, sizes across the "
            "short/long header boundary), recv(), recv_multipart() and pipe detach on the real AnonymousIngressEngine in lock-step with the "
            "model, plus the property's oracle on the outputs (the frames handed out regroup into exactly the queued messages; a "
            "recv_multipart result always ends a message); stack level: multipart streams PUSH>PULL, DEALER>DEALER, DEALER>ROUTER, "
            "ROUTER>DEALER over tcp/ipc/inproc read with recv_multipart only / recv only / mixed, with and without other peers attaching "
            "and detaching meanwhile, with and without pre-set MORE flags; a frame-by-frame read interrupted by a peer attach/detach; "
            "send_multipart with 1..1000 frames (refused above the limit, whole below, never a panic or a truncated message)",
    "assumptions": ["the ready-pipe queue is observed sequentially here (its concurrent behaviour is C08's)",
                    "DEALER's and ROUTER's frame_recv_buffer follow the same algorithm as the anonymous engine's stash; they are tied by the "
                    "translator flags and the stack scenarios, not by a component-level lock-step run"],
}


def run(ctx):
    return flow.run(ctx, SPEC)
