"""Shared machinery of ./check: translator run, Lean build + audit, harness build, lock-step
correspondence run, diffing, violation search bookkeeping, evidence writing."""
import json
import os
import random
import re
import subprocess
import sys
import time

VERIF = os.path.dirname(os.path.dirname(os.path.abspath(__file__)))
REPO = os.environ.get("VERIF_REPO", "/repo")
LEAN = os.path.join(VERIF, "lean")
HARNESS = os.path.join(VERIF, "harness")
BUILD = os.path.join(VERIF, ".build")
CORR = os.path.join(BUILD, "cargo", "debug", "corr")
E2E = os.path.join(BUILD, "cargo", "debug", "e2e")
MODEL = os.path.join(LEAN, ".lake", "build", "bin", "rzmq_model")
ALLOWED_AXIOMS = {"propext", "Classical.choice", "Quot.sound"}
FORBIDDEN = re.compile(r"\bsorry\b|\badmit\b|^axiom\s|native_decide|bv_decide|implemented_by|\bunsafe\s|maxHeartbeats\s+0\b")

ENV = dict(os.environ)
ENV["CARGO_NET_OFFLINE"] = "true"


def sh(cmd, cwd=None, timeout=None, inp=None):
    p = subprocess.run(cmd, cwd=cwd, env=ENV, input=inp, stdout=subprocess.PIPE, stderr=subprocess.STDOUT,
                       timeout=timeout, shell=isinstance(cmd, str), text=True, errors="replace")
    return p.returncode, p.stdout


class Ctx:
    def __init__(self, prop, tier, seed):
        self.prop = prop
        self.tier = tier
        self.seed = seed
        self.rng = random.Random(seed * 1000003 + int(prop[1:]))
        self.t0 = time.time()
        self.violations = []  # (replay_path, no_input_found: bool, what)
        self.known_hits = []  # strings
        self.notes = []
        self.cov = {
            "obligations": 0, "discharged": 0, "checker_cmd": "", "trusted_base": [],
            "evaluations": 0, "distinct_nontrivial": 0, "rule": "", "samples": [],
            "traces_validated_against_impl": 0, "theorems": {}, "axioms": {},
            "correspondence": {}, "oracle_failures": 0, "model_disagreements": 0,
            "gen_changed": [], "distribution": {},
        }
        self.assumptions = []
        self.broken = []  # names of theorems / correspondences that no longer check
        self._distinct = set()
        os.makedirs(os.path.join(VERIF, "replay"), exist_ok=True)
        os.makedirs(os.path.join(VERIF, "evidence"), exist_ok=True)

    def log(self, *a):
        print("[check %s]" % self.prop, *a, flush=True)

    # ---------------------------------------------------------------- replay / violations
    def write_replay(self, tag, payload):
        path = os.path.join(VERIF, "replay", "%s-%s-%d.json" % (self.prop, tag, self.seed))
        payload = dict(payload)
        payload.setdefault("property", self.prop)
        payload.setdefault("seed", self.seed)
        payload.setdefault("rerun", "./check %s --replay %s" % (self.prop, path))
        with open(path, "w") as f:
            json.dump(payload, f, indent=1)
        return path

    def violation(self, tag, payload, no_input=False, what=""):
        path = self.write_replay(tag, payload)
        self.violations.append((path, no_input, what))
        return path


# ------------------------------------------------------------------------------------ known findings
def load_known(prop):
    p = os.path.join(VERIF, "known_findings.json")
    if not os.path.exists(p):
        return []
    with open(p) as f:
        data = json.load(f)
    return [e for e in data.get("findings", []) if e.get("property") == prop and e.get("status", "open") == "open"]


# ------------------------------------------------------------------------------------ translator
def translate(ctx):
    rc, out = sh([sys.executable, os.path.join(VERIF, "tools", "translate.py")])
    try:
        res = json.loads(out.strip().splitlines()[-1])
    except Exception:
        res = {"errors": ["translator crashed: " + out[-500:]], "changed": []}
    ctx.cov["gen_changed"] = res.get("changed", [])
    if res["errors"]:
        ctx.broken.append("translator: " + "; ".join(res["errors"][:5]))
        ctx.log("translator could not locate:", res["errors"])
    return res


# ------------------------------------------------------------------------------------ Lean
def strip_lean_comments(s):
    s = re.sub(r"/-.*?-/", "", s, flags=re.S)
    s = re.sub(r"--[^\n]*", "", s)
    return s


def module_closure(prop):
    """files of the property module and everything it (transitively) imports from this project"""
    seen = {}
    todo = ["RzmqModel.Props." + prop]
    while todo:
        m = todo.pop()
        if m in seen:
            continue
        path = os.path.join(LEAN, *m.split(".")) + ".lean"
        if not os.path.exists(path):
            continue
        seen[m] = path
        for mm in re.finditer(r"^import\s+(RzmqModel\.\S+)", open(path).read(), re.M):
            todo.append(mm.group(1))
    return seen


def scan_forbidden(prop):
    hits = []
    for m, p in sorted(module_closure(prop).items()):
        txt = strip_lean_comments(open(p).read())
        for line in txt.splitlines():
            if FORBIDDEN.search(line):
                hits.append("%s: %s" % (os.path.relpath(p, LEAN), line.strip()[:80]))
    return hits


def theorems_of(prop):
    path = os.path.join(LEAN, "RzmqModel", "Props", prop + ".lean")
    txt = open(path).read()
    ns = re.search(r"^namespace\s+(\S+)", txt, re.M).group(1)
    names = []
    starts = []
    for i, line in enumerate(txt.splitlines(), 1):
        m = re.match(r"^(?:protected\s+)?theorem\s+(\S+)", line)
        if m:
            names.append(ns + "." + m.group(1))
            starts.append(i)
    return path, names, starts


def lean_check(ctx, prop, extra_modules=()):
    """lake build of the property module (+driver); audit axioms; fills obligations/discharged.
    Returns True when every obligation is discharged."""
    path, names, starts = theorems_of(prop)
    ctx.cov["obligations"] = len(names)
    audit_dir = os.path.join(LEAN, "RzmqModel", "Audit")
    os.makedirs(audit_dir, exist_ok=True)
    audit_path = os.path.join(audit_dir, prop + ".lean")
    audit_txt = "import RzmqModel.Props.%s\n" % prop + "".join("#print axioms %s\n" % n for n in names)
    if not os.path.exists(audit_path) or open(audit_path).read() != audit_txt:
        open(audit_path, "w").write(audit_txt)
    mods = ["RzmqModel.Props." + prop, "rzmq_model"] + list(extra_modules)
    cmd = ["lake", "build"] + mods
    ctx.cov["checker_cmd"] = "cd lean && " + " ".join(cmd) + " && lake env lean RzmqModel/Audit/%s.lean" % prop
    t = time.time()
    rc, out = sh(cmd, cwd=LEAN, timeout=3000)
    ctx.cov["lean_build_s"] = round(time.time() - t, 1)
    failed = set()
    other_errors = []
    if rc != 0:
        rel = os.path.relpath(path, LEAN)
        for m in re.finditer(r"error: ([^\s:]+\.lean):(\d+):(\d+): ([^\n]*)", out):
            f, ln, msg = m.group(1), int(m.group(2)), m.group(4)
            if f.endswith(rel) or os.path.basename(f) == os.path.basename(rel) and "Props" in f:
                idx = max([i for i, s in enumerate(starts) if s <= ln], default=None)
                if idx is not None:
                    failed.add(names[idx])
                else:
                    other_errors.append("%s:%d %s" % (f, ln, msg))
            else:
                other_errors.append("%s:%d %s" % (f, ln, msg[:120]))
        if not failed and not other_errors:
            other_errors.append("lake build failed: " + out[-400:])
    if other_errors:
        # a helper module / the model itself no longer compiles: nothing in the property file is checked
        failed = set(names)
        ctx.broken.append("lean: " + "; ".join(other_errors[:3]))
    sorry_warn = re.findall(r"warning: ([^\s:]+Props/%s\.lean):(\d+):\d+: declaration uses .sorry." % prop, out)
    for _, ln in sorry_warn:
        idx = max([i for i, s in enumerate(starts) if s <= int(ln)], default=None)
        if idx is not None:
            failed.add(names[idx])
    # audit
    axioms = {}
    if rc == 0:
        rc2, aout = sh(["lake", "env", "lean", "RzmqModel/Audit/%s.lean" % prop], cwd=LEAN, timeout=1200)
        for m in re.finditer(r"'(\S+)' depends on axioms: \[([^\]]*)\]", aout):
            axioms[m.group(1)] = [a.strip() for a in m.group(2).replace("\n", " ").split(",") if a.strip()]
        for m in re.finditer(r"'(\S+)' does not depend on any axioms", aout):
            axioms[m.group(1)] = []
        for n in names:
            if n not in axioms:
                failed.add(n)
                ctx.broken.append("audit: no axiom report for " + n)
            elif not set(axioms[n]) <= ALLOWED_AXIOMS:
                failed.add(n)
                ctx.broken.append("audit: %s depends on %s" % (n, axioms[n]))
    forb = scan_forbidden(prop)
    if forb:
        failed = set(names)
        ctx.broken.append("forbidden constructs: " + "; ".join(forb[:5]))
    for n in sorted(failed):
        ctx.broken.append("theorem " + n)
    ctx.cov["discharged"] = len(names) - len(failed)
    ctx.cov["theorems"] = {n: ("FAILED" if n in failed else "proved") for n in names}
    ctx.cov["axioms"] = axioms
    ctx.log("lean: %d/%d obligations discharged (%.1fs)" % (ctx.cov["discharged"], len(names), ctx.cov["lean_build_s"]))
    model_ok = os.path.exists(MODEL) and (rc == 0 or "rzmq_model" not in out.split("error")[-1])
    return len(failed) == 0, model_ok, out


def model_available():
    return os.path.exists(MODEL)


# ------------------------------------------------------------------------------------ harness
def cargo_build(ctx, bins=("corr",)):
    t = time.time()
    cmd = ["cargo", "build", "--offline"] + sum((["--bin", b] for b in bins), [])
    rc, out = sh(cmd, cwd=HARNESS, timeout=3000)
    if rc != 0 and "error[E" not in out:
        # not a compile error in the source: a corrupted incremental cache (rustc abort, "undefined hidden symbol" at link
        # time) after an interrupted or concurrent build. Drop the incremental state of the workspace crates and retry once.
        import shutil
        shutil.rmtree(os.path.join(VERIF, ".build", "cargo", "debug", "incremental"), ignore_errors=True)
        sh(["cargo", "clean", "--offline", "-p", "rzmq", "-p", "rzmq_verif_harness"], cwd=HARNESS, timeout=600)
        ctx.notes.append("harness build failed without a source error (toolchain/cache problem); cache dropped, rebuilt once")
        rc, out = sh(cmd, cwd=HARNESS, timeout=3000)
    ctx.cov["cargo_build_s"] = round(time.time() - t, 1)
    if rc != 0:
        errs = re.findall(r"^error[^\n]*\n[^\n]*", out, re.M)
        ctx.broken.append("harness build against /repo failed: " + " | ".join(e.replace("\n", " ") for e in errs[:3]))
        ctx.log("cargo build failed:\n" + out[-1500:])
        return False
    return True


def run_bin(path, args, lines, timeout=1800, env=None):
    e = dict(ENV)
    if env:
        e.update(env)
    p = subprocess.run([path] + list(args), input="\n".join(lines) + "\n", stdout=subprocess.PIPE,
                       stderr=subprocess.PIPE, text=True, errors="replace", timeout=timeout, env=e)
    return p.returncode, p.stdout.splitlines(), p.stderr


BINS = {"corr": CORR, "e2e": E2E}


def run_pair(ctx, comp, cases, binname=None, env=None):
    """cases: list of lists of op lines (each case self-contained). Returns per-case (impl, model) outputs."""
    flat = []
    bounds = []
    for c in cases:
        bounds.append((len(flat), len(flat) + len(c)))
        flat.extend(c)
    binname = binname or ("e2e" if comp == "stack" else "corr")
    rc1, impl, e1 = run_bin(BINS[binname], [comp], flat, env=env)
    rc2, model, e2 = run_bin(MODEL, [comp], [l.lstrip("!") for l in flat])  # '!' = run exclusively (harness only)
    if rc1 != 0 or len(impl) != len(flat):
        # the harness process died (abort, stack overflow): bisect to the offending case
        impl = impl + ["HARNESS-DIED"] * (len(flat) - len(impl))
        ctx.notes.append("corr %s exited rc=%s after %d/%d lines: %s" % (comp, rc1, len(impl), len(flat), e1[-300:]))
    if rc2 != 0 or len(model) != len(flat):
        model = model + ["MODEL-DIED"] * (len(flat) - len(model))
        ctx.notes.append("rzmq_model %s exited rc=%s: %s" % (comp, rc2, e2[-300:]))
    return [(impl[a:b], model[a:b]) for a, b in bounds]


def corr_component(ctx, comp, cases, nontrivial=None, sample_n=3, label=None, oracle=None, shrink=True, env=None):
    """Lock-step run of `cases` on implementation and model.  Returns list of dicts for cases where
    something is wrong: kind = 'oracle' (implementation fails the property's own oracle) or
    'disagree' (model and implementation differ)."""
    label = label or comp
    res = run_pair(ctx, comp, cases, env=env)
    bad = []
    n_eval = 0
    stat = ctx.cov["correspondence"].setdefault(label, {"cases": 0, "ops": 0, "disagreements": 0, "oracle_failures": 0})
    for case, (impl, model) in zip(cases, res):
        n_eval += 1
        stat["cases"] += 1
        stat["ops"] += len(case)
        orc = [i for i, l in enumerate(impl) if l.startswith("ORACLE-FAIL") or l in ("PANIC", "HARNESS-DIED")]
        dif = [i for i in range(len(case)) if impl[i] != model[i]]
        detail = None
        if not orc and oracle is not None:
            try:
                detail = oracle(case, impl)
            except Exception as e:  # an oracle that cannot parse the output is itself a failure to check
                detail = "oracle crashed: %r" % (e,)
            if detail:
                impl = list(impl) + ["ORACLE-FAIL " + detail]
                model = list(model) + ["(python oracle)"]
                orc = [len(impl) - 1]
        if orc:
            stat["oracle_failures"] += 1
            bad.append({"kind": "oracle", "component": comp, "ops": case, "impl": impl, "model": model, "at": orc[0],
                        "detail": detail, "oracle": oracle, "shrinkable": shrink, "env": env})
        elif dif:
            stat["disagreements"] += 1
            bad.append({"kind": "disagree", "component": comp, "ops": case, "impl": impl, "model": model, "at": dif[0],
                        "shrinkable": shrink})
        key = (comp, tuple(case))
        if key not in ctx._distinct:
            nt = nontrivial(case, impl) if nontrivial else any(
                not l.startswith("bad-op") for l in impl)
            if nt:
                ctx._distinct.add(key)
        if len(ctx.cov["samples"]) < 12 and (stat["cases"] <= sample_n):
            ctx.cov["samples"].append({"component": label, "ops": case[:6], "impl": impl[:6]})
    ctx.cov["evaluations"] += n_eval
    ctx.cov["traces_validated_against_impl"] += n_eval
    ctx.cov["distinct_nontrivial"] = len(ctx._distinct)
    return bad


def shrink_case(ctx, comp, bad):
    """delta-debug the op list of a failing case (keeps the first line: it usually creates the state)."""
    ops = list(bad["ops"])
    kind = bad["kind"]
    if not bad.get("shrinkable", True):
        out = dict(bad)
        out.pop("oracle", None)
        return out

    orc = bad.get("oracle")

    def fails(cand):
        (impl, model), = run_pair(ctx, comp, [cand])
        if kind == "oracle":
            if any(l.startswith("ORACLE-FAIL") or l in ("PANIC", "HARNESS-DIED") for l in impl):
                return True
            if orc is not None:
                try:
                    return bool(orc(cand, impl))
                except Exception:
                    return False
            return False
        return impl != model

    if len(ops) > 1:
        n = 2
        while len(ops) >= 2 and n <= len(ops):
            chunk = max(1, len(ops) // n)
            reduced = False
            for i in range(0, len(ops), chunk):
                cand = ops[:i] + ops[i + chunk:]
                if cand and fails(cand):
                    ops = cand
                    n = max(n - 1, 2)
                    reduced = True
                    break
            if not reduced:
                if chunk == 1:
                    break
                n = min(n * 2, len(ops))
    (impl, model), = run_pair(ctx, comp, [ops])
    out = dict(bad)
    if orc is not None:
        try:
            d = orc(ops, impl)
        except Exception:
            d = None
        if d:
            impl = list(impl) + ["ORACLE-FAIL " + d]
            out["detail"] = d
    out.update({"ops": ops, "impl": impl, "model": model, "shrunk_from": len(bad["ops"])})
    out.pop("oracle", None)
    return out


# ------------------------------------------------------------------------------------ evidence
def finish(ctx, level="proof"):
    wall = time.time() - ctx.t0
    cov = ctx.cov
    cov["broken"] = ctx.broken
    cov["notes"] = ctx.notes
    cov["known_findings_reported"] = ctx.known_hits
    ev = {
        "property_id": ctx.prop, "tier": ctx.tier, "seed": ctx.seed, "level": level,
        "coverage": cov, "assumptions": ctx.assumptions, "wall_s": round(wall, 1),
        "violations": len(ctx.violations),
    }
    with open(os.path.join(VERIF, "evidence", ctx.prop + ".json"), "w") as f:
        json.dump(ev, f, indent=1, default=str)
    for k in ctx.known_hits:
        print("KNOWN-FINDING: property=%s %s" % (ctx.prop, k))
    for path, no_input, what in ctx.violations:
        print("VIOLATION property=%s replay=%s%s" % (ctx.prop, path, " no-failing-input-found" if no_input else ""))
    ctx.log("done in %.1fs: %d violation(s), %d known finding(s); obligations %d/%d; %d cases, %d distinct non-trivial" % (
        wall, len(ctx.violations), len(ctx.known_hits), cov["discharged"], cov["obligations"],
        cov["evaluations"], cov["distinct_nontrivial"]))
    sys.stdout.flush()
    return 1 if ctx.violations else 0


TRUSTED_BASE_COMMON = [
    "Lean 4.33 kernel; axioms allowed: propext, Classical.choice, Quot.sound (audited per theorem with #print axioms)",
    "tools/translate.py (regex extraction of literals/tables from /repo into lean/RzmqModel/Gen)",
    "correspondence harness /verif/harness (Rust, links /repo/core built from the current tree with --cfg rzmq_verif) and the Lean driver lean/Main.lean executing the model definitions the theorems are about",
    "op generators in /verif/checks (bound what the correspondence sees)",
]
