"""Generators for the `wire` component (C03, C07): structure-directed frames/batches/streams."""

BOUNDARY = [0, 1, 2, 3, 7, 8, 9, 254, 255, 256, 257, 300, 1000, 65535, 65536, 65537, 70000]
SMALLB = [0, 1, 2, 254, 255, 256, 257]


def pick_len(rng, big_ok=True):
    r = rng.random()
    if r < 0.45:
        return rng.choice(SMALLB)
    if r < 0.55 and big_ok:
        return rng.choice(BOUNDARY)
    if r < 0.9:
        return rng.randrange(0, 40)
    return rng.randrange(200, 600)


def payload_spec(rng, n):
    if n == 0:
        return "-"
    if n <= 8 and rng.random() < 0.5:
        return "h" + "".join("%02x" % rng.randrange(256) for _ in range(n))
    return "p%dx%d" % (n, rng.randrange(256))


def payload_bytes(spec):
    if spec == "-":
        return b""
    out = bytearray()
    for tok in spec.split("+"):
        k, rest = tok[0], tok[1:]
        if k == "h":
            out += bytes.fromhex(rest)
        elif k == "z":
            out += bytes(int(rest))
        elif k == "p":
            l, s = rest.split("x")
            out += bytes((int(s) + 31 * i) % 256 for i in range(int(l)))
    return bytes(out)


def gen_frame(rng, flags=None, big_ok=True):
    d = rng.randrange(4) if flags is None else flags
    n = pick_len(rng, big_ok)
    return d, payload_spec(rng, n)


def frame_str(fr):
    return "%d%s" % fr


def gen_message(rng, maxframes=4, commands=True, big_ok=True):
    n = rng.choice([1, 1, 1, 2, 2, 3, maxframes])
    fs = []
    for i in range(n):
        more = 1 if i < n - 1 else 0
        cmd = 2 if (commands and rng.random() < 0.15) else 0
        d, sp = gen_frame(rng, more | cmd, big_ok)
        fs.append((d, sp))
    return fs


def batch_str(msgs):
    return ";".join(",".join(frame_str(f) for f in m) for m in msgs)


def ref_encode(fr):
    """reference encoding (RFC 23) used only to build decoder inputs"""
    d, sp = fr
    data = payload_bytes(sp)
    fl = (d & 1) | (4 if d & 2 else 0)
    if len(data) <= 255:
        return bytes([fl, len(data)]) + data
    return bytes([fl | 2]) + len(data).to_bytes(8, "big") + data


def ref_header_len(fr):
    return 2 if len(payload_bytes(fr[1])) <= 255 else 9


def stream_spec(frames):
    """byte-spec of the reference encoding that keeps payloads as pattern tokens (short lines)"""
    toks = []
    for fr in frames:
        enc = ref_encode(fr)
        hl = ref_header_len(fr)
        toks.append("h" + enc[:hl].hex())
        if fr[1] != "-":
            toks.append(fr[1])
    return "+".join(toks) if toks else "-"


def cuts_str(cuts):
    return ",".join(str(c) for c in cuts) if cuts else "-"


def random_cuts(rng, total, frames=None):
    if total == 0 or rng.random() < 0.1:
        return []
    style = rng.random()
    if style < 0.25 and total <= 600:
        return [1] * (total - 1)  # one byte at a time
    # cut positions biased to header boundaries
    pos = set()
    if frames:
        off = 0
        for fr in frames:
            hl = ref_header_len(fr)
            for c in (off, off + 1, off + hl - 1, off + hl, off + hl + 1):
                if 0 < c < total and rng.random() < 0.5:
                    pos.add(c)
            off += len(ref_encode(fr))
    for _ in range(rng.randrange(0, 4)):
        pos.add(rng.randrange(1, total) if total > 1 else 1)
    pos = sorted(p for p in pos if 0 < p < total)
    cuts = []
    prev = 0
    for p in pos:
        cuts.append(p - prev)
        prev = p
    return cuts


EXTREME_LENS = [0, 1, 255, 256, 2 ** 31, 2 ** 32, 2 ** 63 - 1, 2 ** 63, 2 ** 64 - 9, 2 ** 64 - 2, 2 ** 64 - 1]


def malformed_stream(rng):
    """header with extreme / inconsistent length fields, random flag bytes, truncated bodies"""
    r = rng.random()
    if r < 0.4:
        fl = rng.randrange(256) | 2
        n = rng.choice(EXTREME_LENS)
        body = rng.randrange(0, 12)
        return "h%02x%016x" % (fl, n) + ("+p%dx%d" % (body, rng.randrange(256)) if body else "")
    if r < 0.7:
        n = rng.randrange(1, 24)
        return "h" + "".join("%02x" % rng.randrange(256) for _ in range(n))
    fl = rng.randrange(256) & ~2
    ln = rng.randrange(256)
    have = rng.choice([0, 1, ln // 2, max(ln - 1, 0), ln, ln + 1, ln + 5])
    return "h%02x%02x" % (fl, ln) + ("+p%dx%d" % (have, rng.randrange(256)) if have else "")
