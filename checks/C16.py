"""C16 — close() and term() always finish and leave nothing running or hanging."""
from . import flow

GROUPS = [["PUSH", "PULL"], ["DEALER", "ROUTER"], ["REQ", "REP"], ["PUB", "SUB"], ["DEALER", "DEALER"],
          ["PUSH", "PULL", "DEALER", "ROUTER"], ["REQ", "ROUTER", "DEALER", "REP"]]


def script(rng, tier):
    types = list(rng.choice(GROUPS))
    n = len(types)
    ops = []
    bound = {}
    # a monitor that is full from the first event on and that nobody reads (before the endpoints exist, so that they report to it)
    for i in range(n):
        if rng.random() < 0.15:
            ops.append("M%d" % i)
    # set-up phase: binds and connects, sometimes none at all
    for i in range(n):
        if i % 2 == 1 and rng.random() < 0.85:
            tr = rng.choice("ttpn")
            ops.append("b%d%s" % (i, tr))
            bound[i] = tr
    for i in range(n):
        if i % 2 == 0 and (i + 1) in bound and rng.random() < 0.85:
            ops.append("c%d-%d" % (i, i + 1))
    body = []
    k = rng.randrange(2, 12)
    for _ in range(k):
        r = rng.random()
        i = rng.randrange(n)
        if r < 0.14:
            body.append("s%d" % i)
        elif r < 0.26:
            body.append("S%d" % i)
        elif r < 0.40:
            body.append("R%d" % i)
        elif r < 0.48:
            body.append("d%d" % i)
        elif r < 0.51:
            body.append("B%d" % i)
        elif r < 0.56 and bound.get(i) == "t":
            body.append("h%d" % i)
        elif r < 0.62:
            body.append("o%d" % i)
        elif r < 0.68:
            body.append("m%d" % i)
        elif r < 0.76:
            body.append("w%d" % rng.choice([0, 1, 5, 30, 120]))
        elif r < 0.84:
            body.append("x%d" % i)
        elif r < 0.90:
            body.append("X%d" % i)
        elif r < 0.94:
            body.append("D%d" % i)
        elif r < 0.97:
            body.append("t")
        else:
            body.append("T")
    # the injection point of close/term: anywhere
    ops += body
    if rng.random() < 0.5:
        ops.append(rng.choice(["T", "t", "x%d" % rng.randrange(n)]))
    return ["lifecycle rt=%s %s %s" % (rng.choice(["mt", "mt", "ct"]), ",".join(types), ";".join(ops))]


def crowd(rng):
    """several tasks parked in the same call on one socket (senders without a peer or at the HWM, receivers without traffic),
    then close()/term() from wherever: every one of them has to come back"""
    types = list(rng.choice(GROUPS[:5]))
    ops = []
    peer = rng.random() < 0.4
    if peer:
        tr = rng.choice("tpn")
        ops += ["b1%s" % tr, "c0-1"]
    k = rng.randrange(3, 7)
    who = rng.choice(["S0", "S0", "R0", "R1", "S1"])
    if who[0] == "S" and rng.random() < 0.75:
        ops.append("B" + who[1])          # senders that wait without limit (the default SNDTIMEO)
    ops += [who] * k
    if rng.random() < 0.3:
        ops += [rng.choice(["R0", "S1", "R1"])] * rng.randrange(1, 4)
    ops.append("w%d" % rng.choice([5, 30, 120]))
    ops.append(rng.choice(["x%s" % who[1], "X%s" % who[1], "T", "t", "D%s" % who[1]]))
    return ["lifecycle rt=%s %s %s" % (rng.choice(["mt", "ct"]), ",".join(types), ";".join(ops))]


def park_case(rng):
    """the real LoadBalancer under the turnstile scheduler: k tasks inside wait_for_connection(), arriving before and after the
    signal, then `deactivate()` (what Stop does) or a peer being added; in lock-step with the model"""
    k = rng.randrange(1, 7)
    names = ["t%d" % i for i in range(k)]
    ops = ["lb new"]
    early = rng.randrange(0, k + 1)
    for t in names[:early]:
        ops.append("task %s lbwait" % t)
    for _ in range(rng.randrange(0, 3 * max(early, 1))):
        if early:
            ops.append("step %s" % rng.choice(names[:early]))
    ops.append(rng.choice(["lb deactivate", "lb deactivate", "lb add 1"]))
    for t in names[early:]:
        ops.append("task %s lbwait" % t)
    tail = [("step %s" % t) for t in names for _ in range(3)]
    rng.shuffle(tail)
    ops += tail
    if rng.random() < 0.3:
        ops.append("lb deactivate")       # Stop is processed twice per shutdown
    ops += ["step %s" % t for t in names]
    return ops


def park_oracle(case, impl):
    """once the signal has been given and a task has been polled again (twice), it is no longer parked"""
    last = {}
    for op, out in zip(case, impl):
        p = op.split(" ")
        if p[0] == "step":
            last[p[1]] = out
    stuck = [t for t, o in last.items() if not o.startswith("done(")]
    if stuck:
        return "key=parked-for-ever after the signal task(s) %s are still inside wait_for_connection(): %s" % (stuck, [last[t] for t in stuck])
    return None


def gen_park(rng, tier):
    return [park_case(rng) for _ in range(150 if tier == "quick" else 6000)]


def gen(rng, tier):
    n = 48 if tier == "quick" else 800
    return [script(rng, tier) for _ in range(n)] + [crowd(rng) for _ in range(n // 3)]


def dist(cases):
    d = {"cases": len(cases), "ops": 0, "with_bg_close": 0, "with_bg_term": 0, "with_half_handshake": 0, "with_dead_connect": 0,
         "with_blocked_recv": 0, "with_blocked_send": 0, "with_three_or_more_parked_in_one_call": 0,
         "with_unlimited_send_wait": 0, "with_full_unread_monitor": 0}
    for c in cases:
        ops = c[0].split(" ")[3].split(";")
        d["ops"] += len(ops)
        d["with_bg_close"] += any(o.startswith("X") for o in ops)
        d["with_bg_term"] += "t" in ops
        d["with_half_handshake"] += any(o.startswith("h") for o in ops)
        d["with_dead_connect"] += any(o.startswith("d") for o in ops)
        d["with_blocked_recv"] += any(o.startswith("R") for o in ops)
        d["with_blocked_send"] += any(o.startswith("S") for o in ops)
        d["with_unlimited_send_wait"] += any(o.startswith("B") for o in ops)
        d["with_full_unread_monitor"] += any(o.startswith("M") for o in ops)
        d["with_three_or_more_parked_in_one_call"] += any(ops.count(o) >= 3 for o in ops if o[0] in "SR")
    return d


SPEC = {
    "components": [{"comp": "conc", "gen": gen_park, "oracle": park_oracle, "label": "parked-callers",
                    "nontrivial": lambda c, i: any(l.startswith("done(") for l in i), "dist": lambda cs: {"cases": len(cs), "ops": sum(len(c) for c in cs)}},
                   {"comp": "stack", "gen": gen, "label": "lifecycle", "shrink": False,
                    "nontrivial": lambda c, i: any(l == "lifecycle=ok" for l in i), "dist": dist}],
    "search": lambda rng, tier: [("conc", gen_park(rng, "quick"), park_oracle), ("stack", gen(rng, "quick") + gen(rng, "quick"), None, False)],
    "rule": "component level: 1..6 tasks inside the real LoadBalancer::wait_for_connection() under the deterministic scheduler, arriving "
            "before and after deactivate() / add_connection(), polled in random order, in lock-step with the model (oracle: nobody stays "
            "parked after the signal); stack level: random histories of API calls (bind tcp/ipc/inproc, connect, connect to a dead port, a raw peer stuck in the "
            "handshake, a monitor of capacity 1 that nobody reads, send, background senders blocked at the HWM or for want of a peer, background receivers blocked in recv() (one or several per socket), set_option, monitor, close() "
            "inline / from another task / twice, handle drop, term() inline / from another task) on 2..4 sockets of one context, on "
            "current-thread and multi-thread runtimes, each ending in term(); oracles: close() returns within 15 s and term() within 25 s, "
            "term() never has to wait out a straggler (8 s), nothing panics, every operation on every socket fails within 3 s afterwards, "
            "every blocked background call has returned within 5 s, every tcp port / ipc path / inproc name can be bound again within 2.5 s, "
            "no task of the context is alive 3 s later (runtime task count back to the baseline)",
    "assumptions": ["the runtime's alive-task counter is the observation of 'no background task still running'",
                    "the histories are sampled; the model covers the wait-group and event decisions, not the interleavings of actor tasks"],
}


def run(ctx):
    from . import common
    common.ENV["VERIF_E2E_PAR"] = "12"
    return flow.run(ctx, SPEC)
