"""C07 — no byte stream from a peer can crash rzmq or make it buffer without bound."""
import struct

from . import flow
from . import enggen as E
from . import wiregen as W
from . import C04


def mutate(rng, data):
    data = bytearray(data)
    r = rng.random()
    if not data:
        return bytes(data)
    if r < 0.25:
        for _ in range(rng.choice([1, 1, 2, 5])):
            i = rng.randrange(len(data))
            data[i] ^= 1 << rng.randrange(8)
    elif r < 0.4:
        del data[rng.randrange(len(data)):]
    elif r < 0.55:
        i = rng.randrange(len(data))
        ext = rng.choice([0, 255, 256, 2 ** 31, 2 ** 63, 2 ** 64 - 1])
        data[i:i] = bytes([rng.choice([2, 3, 6, 7])]) + struct.pack(">Q", ext)
    elif r < 0.65:
        i = rng.randrange(len(data))
        j = rng.randrange(i, min(len(data), i + 40))
        data[i:i] = data[i:j]          # duplicate a slice (repeated command)
    elif r < 0.75:
        i = rng.randrange(len(data))
        j = rng.randrange(i, min(len(data), i + 30))
        k = rng.randrange(j, min(len(data), j + 30))
        data[i:k] = data[j:k] + data[i:j]  # reorder
    elif r < 0.85:
        i = rng.randrange(len(data))
        data[i:i] = bytes(rng.randrange(256) for _ in range(rng.randrange(1, 20)))
    else:
        i = rng.randrange(len(data))
        data[i:i + 3] = b"\xff\xfe\xc0"   # invalid UTF-8 where metadata names live
    return bytes(data)


def gen_engine_cases(rng, tier):
    n = 1200 if tier == "quick" else 30000
    cases = []
    for i in range(n):
        c, hs, data = C04.transcript(rng)
        r = rng.random()
        if r < 0.08:
            # more frames than a message may have
            k = rng.choice([254, 255, 256, 257, 300])
            data = b"".join(E.frame(b"x", more=True) for _ in range(k)) + E.frame(b"end")
            stream = hs + data
        elif r < 0.16:
            bad = E.ready("PUSH", extra=[(b"\xff\xfeBad", b"v")]) if rng.random() < 0.5 else \
                E.frame(b"\x05READY" + bytes([200]) + b"short", command=True)
            stream = hs[: max(0, len(hs) - rng.choice([0, 30]))] + bad + data
        elif r < 0.24:
            stream = bytes(rng.randrange(256) for _ in range(rng.randrange(1, 120)))
        else:
            stream = mutate(rng, hs + data)
        cuts = W.cuts_str(W.random_cuts(rng, len(stream))) if rng.random() < 0.7 else "-"
        ops = ["new A " + E.cfg_str(c), "start A", "bytes A 0 %s %s" % (E.hexspec(stream), cuts), "state A"]
        if rng.random() < 0.5:
            ops += ["bytes A 1 %s -" % E.hexspec(E.frame(b"late")), "state A"]
        cases.append(ops)
    return cases


def engine_oracle(case, impl):
    cfg = dict(kv.split("=") for kv in case[0].split(" ")[2].split(","))
    mx = int(cfg.get("max", "-1"))
    closed = False
    for op, out in zip(case, impl):
        if op.startswith("bytes"):
            po = E.parse_out(out)
            if po is None:
                return "unparseable: " + out[:80]
            segs = out.split(" | ")
            for s in segs:
                if closed and s != "net=[] app=[]":
                    return "key=output-after-close closed engine produced output: " + s[:120]
                if "E(" in s:
                    closed = True
        elif op.startswith("state"):
            st = dict(kv.split("=") for kv in out.split(" "))
            if closed and st["phase"] != "closed":
                return "key=error-not-closed PeerError emitted but phase=" + st["phase"]
            # C07.accumulator_bounded: in the data phase fewer than 9 + MAXMSGSIZE undecoded bytes; before it the handshake frame
            # limit max(MAXMSGSIZE, 8192) applies (a tiny MAXMSGSIZE must not make the handshake impossible), and a greeting is 64 bytes
            bound = 9 + mx if st["phase"] == "data" else max(64, 9 + max(mx, 8192))
            if st["phase"] != "closed" and mx >= 0 and int(st["acc"]) >= bound:
                return "key=acc-unbounded accumulator holds %s bytes with MAXMSGSIZE=%d" % (st["acc"], mx)
            if int(st["partial"]) > 255:
                return "key=partial-unbounded partial message has %s frames" % st["partial"]
    return None


def gen_wire_cases(rng, tier):
    n = 800 if tier == "quick" else 20000
    cases = []
    for _ in range(n):
        spec = W.malformed_stream(rng)
        if rng.random() < 0.3:
            spec = W.stream_spec([W.gen_frame(rng, big_ok=False)]) + "+" + spec
        mx = rng.choice([-1, 0, 1, 255, 256, 2 ** 31, 2 ** 62])
        cuts = W.cuts_str([rng.randrange(1, 10) for _ in range(rng.randrange(0, 3))])
        cases.append(["dec buffer %d %s %s" % (mx, spec, cuts), "dec rdbytes %d %s %s" % (mx, spec, cuts),
                      "dec slice %d %s" % (mx, spec), "dec bytes %d %s" % (mx, spec), "dec peek %d %s" % (mx, spec),
                      "dec codec %d %s %s" % (rng.randrange(0, 3), spec, cuts)])
    # limit exactness, every decoder, boundary sizes
    for m in [0, 1, 2, 254, 255, 256, 257, 1000]:
        for d in range(4):
            ok = "h" + W.ref_encode((d, "p%dx3" % m if m else "-")).hex()
            over = "h" + W.ref_encode((d, "p%dx3" % (m + 1))).hex()
            cases.append(["dec buffer %d %s -" % (m, ok), "dec buffer %d %s -" % (m, over),
                          "dec slice %d %s" % (m, ok), "dec slice %d %s" % (m, over),
                          "dec bytes %d %s" % (m, ok), "dec bytes %d %s" % (m, over),
                          "dec peek %d %s" % (m, ok), "dec peek %d %s" % (m, over)])
    return cases


def wire_oracle(case, impl):
    if len(case) == 8 and case[0].endswith(" -") and case[0].startswith("dec buffer"):
        for i in (0, 2, 4):
            if not impl[i].startswith("more F"):
                return "key=limit-exact frame of exactly MAXMSGSIZE rejected: %s -> %s" % (case[i][:60], impl[i])
        if not impl[6].startswith("total "):
            return "key=limit-exact peek rejected a frame of exactly MAXMSGSIZE: " + impl[6]
        for i in (1, 3, 5, 7):
            if not impl[i].startswith("err"):
                return "key=limit-exact frame of MAXMSGSIZE+1 accepted: %s -> %s" % (case[i][:60], impl[i])
    return None


def gen_stack_cases(rng, tier):
    cases = []
    hs_bytes = E.greeting_v3("NULL")
    for ivl, hsivl in ([(150, 400), (60, 300)] if tier == "quick" else [(150, 400), (60, 300), (300, 500), (20, 250), (450, 500)]):
        cases.append(["slowdrip role=s,type=PULL,hsivl=%d %d %s" % (hsivl, ivl, E.hexspec(hs_bytes))])
    cases.append(["slowdrip role=s,type=PULL,hsivl=300 5000 hff"])   # silence after one byte
    # malformed / oversized streams against a real listener: the socket must survive and report nothing
    for i in range(6 if tier == "quick" else 60):
        c = {"role": "s", "type": "PULL"}
        if rng.random() < 0.5:
            c["max"] = rng.choice([0, 10, 1000])
        hs = b"".join(b for _, b in E.peer_handshake(rng, c))
        k = rng.choice([255, 256, 300])
        tail = rng.choice([
            b"".join(E.frame(b"x", more=True) for _ in range(k)) + E.frame(b"end"),
            bytes([2]) + struct.pack(">Q", 2 ** 63) + b"xx",
            E.frame(b"y" * 2000),
            mutate(rng, E.frame(b"abc") * 4),
        ])
        cases.append(["hostile %s %s %s" % (E.cfg_str(c), E.hexspec(hs + E.frame(b"first") + tail), rng.choice(["-", "64", "70,5"]))])
    for i in range(4 if tier == "quick" else 40):
        junk = bytes(rng.randrange(256) for _ in range(rng.randrange(1, 200)))
        cases.append(["hostile role=s,type=PULL %s %s" % (E.hexspec(junk), rng.choice(["-", "1", "3,9"]))])
    # a protocol violation closes the connection (the peer sees the end of the stream), on the default backend
    hs0 = b"".join(b for _, b in E.peer_handshake(rng, {"role": "s", "type": "PULL"}, peer_type="PUSH"))
    cases.append(["errclose role=s,type=PULL %s" % E.hexspec(bytes(range(1, 13)) * 6)])
    cases.append(["errclose role=s,type=PULL,max=1000 %s" % E.hexspec(hs0 + bytes([2]) + (5000).to_bytes(8, "big") + b"xx")])
    cases.append(["errclose role=s,type=PULL,hbivl=150,hbto=400 %s idle" % E.hexspec(hs0)])
    # k frames of one message towards a socket that prepends a frame of its own (ROUTER) and one that does not (PULL): at the frame
    # limit the receiving side must refuse or deliver, never panic in the application's recv()
    for rty, peer, extra in (("ROUTER", "DEALER", {"autodelim": 0}), ("PULL", "PUSH", {})):
        for k in (253, 254, 255, 256):
            c = {"role": "s", "type": rty}
            c.update(extra)
            hs = b"".join(b for _, b in E.peer_handshake(rng, c, peer_type=peer))
            data = b"".join(E.frame(b"x" if i == 0 else b"y", more=(i < k - 1)) for i in range(k)) + E.frame(b"after")
            cases.append(["rawpeer %s %s -" % (E.cfg_str(c), E.hexspec(hs + data))])
    # an UNAUTHENTICATED peer talking to a CURVE / NOISE / PLAIN server: whatever its first handshake commands contain
    def md(key, value):
        return bytes([len(key)]) + key + struct.pack(">I", len(value)) + value
    hello_bodies = [
        b"\x05HELLO" + md(b"Public-Key-Client", bytes(32)),
        b"\x05HELLO" + md(b"\xff\xfe", b"x"),                       # a metadata name that is not UTF-8
        b"\x05HELLO" + md(b"Public-Key-Client", b"short"),
        b"\x05HELLO" + bytes([200]) + b"abc",                        # name length beyond the frame
        b"\x05HELLO" + md(b"k", b"")[:-2],                           # value length cut off
        b"\x05HELLO",
        b"\x05HELL",
        b"\x08INITIATE" + md(b"\xc3\x28", b"y"),                    # INITIATE before HELLO, invalid UTF-8
        b"\x07WELCOME" + md(b"a", b"b"),
        b"\x05READY" + md(b"Socket-Type", b"PUSH"),
    ]
    for mech, key in (("CURVE", "curve=1"), ("NOISE_XX", "noise=1")):
        bodies = hello_bodies if tier != "quick" else rng.sample(hello_bodies, 5) + [hello_bodies[1]]
        for body in bodies:
            stream = E.greeting_v3(mech) + E.frame(body, command=True)
            if rng.random() < 0.5:
                stream += mutate(rng, E.frame(body, command=True))
            cases.append(["hostile role=s,type=PULL,%s %s %s" % (key, E.hexspec(stream), rng.choice(["-", "64", "70,5"]))])
    return cases


def nontrivial(case, impl):
    return any("E(" in l or "err" in l or "D(" in l or "closed=" in l or "survived=" in l or "errclose=" in l for l in impl)


SPEC = {
    "components": [
        {"comp": "engine", "gen": gen_engine_cases, "nontrivial": nontrivial, "oracle": engine_oracle,
         "dist": lambda cs: {"cases": len(cs)}},
        {"comp": "wire", "gen": gen_wire_cases, "nontrivial": nontrivial, "oracle": wire_oracle,
         "dist": lambda cs: {"cases": len(cs)}},
        {"comp": "stack", "gen": gen_stack_cases, "nontrivial": nontrivial, "label": "stack-hostile",
         "dist": lambda cs: {"cases": len(cs)}},
    ],
    "search": lambda rng, tier: [("engine", gen_engine_cases(rng, tier), engine_oracle), ("wire", gen_wire_cases(rng, tier), wire_oracle),
                                 ("stack", gen_stack_cases(rng, "quick"), None, False)],
    "rule": "engine: valid v2/v3 NULL/PLAIN transcripts mutated by bit flips, truncation, inserted long-frame headers with length "
            "extremes (0,255,256,2^31,2^63,2^64-1), duplicated/reordered slices, inserted random bytes, invalid UTF-8, 254..300 MORE "
            "frames, malformed READY metadata, pure random bytes; random segmentations; MAXMSGSIZE in {-1,0,1,10,255,256,1000}; "
            "oracles: never PANIC (catch_unwind), every PeerError closes, nothing after close, accumulator < max(64, 9+MAXMSGSIZE) while "
            "open, partial message <= 255 frames; wire: all decoder entry points on malformed headers + exactness of the limit; stack: "
            "slow-drip handshake against HANDSHAKE_IVL, oversized/over-long messages against a real listener; non-trivial = an error, "
            "a decode or a delivery happened",
    "assumptions": ["absence of panics in Rust is observed on the generated streams (catch_unwind), not proved; memory safety is out of scope",
                    "the engine model covers NULL/PLAIN/v2; CURVE/NOISE token parsers are exercised at stack level only",
                    "wall-clock behaviour of the handshake deadline is measured with 1 s of slack"],
}


def run(ctx):
    return flow.run(ctx, SPEC)
