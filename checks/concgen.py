"""Schedules for the `conc` component (turnstile scheduler): ready-pipe queue, wait group, load-balancer wait."""


def rpq_case(rng, cancel=False, dereg=False, big=False):
    npipes = rng.choice([1, 1, 2, 3])
    caps = {p: rng.choice([1, 1, 2, 3]) for p in range(1, npipes + 1)}
    ready_cap = max(npipes, rng.choice([1, 2, 8]))
    ops = ["rpq new %d" % ready_cap] + ["rpq pipe %d %d" % (p, c) for p, c in caps.items()]
    tasks = []
    item = 100
    total_items = 0
    for p in caps:
        script = []
        for _ in range(rng.choice([1, 2, 3, 4] if not big else [4, 6, 8])):
            k = rng.random()
            if k < 0.45:
                script.append("send:%d:%d" % (p, item)); item += 1; total_items += 1
            elif k < 0.7:
                script.append("trysend:%d:%d" % (p, item)); item += 1; total_items += 1
            else:
                n = rng.choice([1, 2, 3])
                script.append("batch:%d:%s" % (p, ",".join(str(item + i) for i in range(n)))); item += n; total_items += n
        tid = "P%d" % p
        ops.append("task %s script %s" % (tid, ";".join(script)))
        tasks.append(tid)
    ncons = rng.choice([1, 1, 2])
    for c in range(ncons):
        script = [rng.choice(["pop", "pop", "trypop"]) for _ in range(rng.choice([1, 2, 3, 5]))]
        tid = "C%d" % c
        ops.append("task %s script %s" % (tid, ";".join(script)))
        tasks.append(tid)
    steps = rng.randrange(5, 60 if not big else 150)
    for i in range(steps):
        t = rng.choice(tasks)
        r = rng.random()
        if cancel and r < 0.05:
            ops.append("cancel " + t)
        elif dereg and r < 0.03:
            ops.append("rpq dereg %d" % rng.choice(list(caps)))
        else:
            ops.append("step " + t)
        if rng.random() < 0.3:
            ops.append("obs")
    # drain phase: one fresh single-pop consumer at a time, every task stepped round-robin
    for k in range(total_items + 1):
        d = "D%d" % k
        ops.append("task %s script pop" % d)
        tasks.append(d)
        for _ in range(5):
            for t in tasks:
                ops.append("step " + t)
    for t in tasks:
        ops.append("res " + t)
    ops.append("obs")
    return ops


def rpq_oracle(case, impl):
    """no loss, no duplication, per-pipe FIFO per consumer; nothing left queued while a consumer is parked"""
    deregd = set()
    accepted = {}   # pipe -> list of items in acceptance order (from producer results)
    returned = []   # (consumer, pipe, item) in completion order
    scripts = {}
    cancelled = set()
    for op, out in zip(case, impl):
        p = op.split(" ")
        if p[0] == "task" and p[2] == "script":
            scripts[p[1]] = p[3].split(";")
        elif p[0] == "rpq" and p[1] == "dereg":
            deregd.add(int(p[2]))
        elif p[0] == "cancel" and out == "done(cancelled)":
            cancelled.add(p[1])
        elif p[0] in ("step", "cancel") and out == "done(PANIC)":
            return "key=rpq-panic task %s panicked" % p[1]
        elif p[0] == "res" and p[1] in scripts:
            res = out[1:-1].split(";") if out != "[]" else []
            sc = scripts.pop(p[1])
            for o, r in zip(sc, res):
                f = o.split(":")
                if f[0] in ("send", "trysend") and r == "ok":
                    accepted.setdefault(int(f[1]), []).append(int(f[2]))
                elif f[0] == "batch" and r.startswith("sent="):
                    n = int(r.split(" ")[0][5:])
                    accepted.setdefault(int(f[1]), []).extend(int(x) for x in f[2].split(",")[:n])
                elif f[0] in ("pop", "trypop") and ":" in r and not r.startswith("err"):
                    pp, it = r.split(":")
                    returned.append((p[1], int(pp), int(it)))
        if out == "HANG":
            return "key=rpq-hang task %s never reached its next schedule point (spin)" % p[1]
    items = [(pp, it) for _, pp, it in returned]
    if len(items) != len(set(items)):
        return "key=rpq-duplicate an item was returned twice: %s" % items
    for cons in set(c for c, _, _ in returned):
        for pipe in set(pp for _, pp, _ in returned):
            seq = [it for c, pp, it in returned if c == cons and pp == pipe]
            if seq != sorted(seq):
                return "key=rpq-order consumer %s saw pipe %d out of order: %s" % (cons, pipe, seq)
    last = impl[-1]
    # final observation: anything still queued on a live pipe means a consumer slept on it
    if not cancelled:
        for tok in last.split(" "):
            if tok.startswith("p") and ":" in tok:
                pid = int(tok[1:tok.index(":")])
                q, r, l = [int(x[1:]) for x in tok[tok.index(":") + 1:].split(",")]
                if pid in deregd:
                    continue
                if l > 0 or q > 0:
                    return "key=rpq-lost-wakeup pipe %d still holds %d item(s) (queued_count=%d) while the consumer is parked: %s" % (pid, l, q, last)
                if r != 0:
                    return "key=rpq-reservation-leak pipe %d reserved_count=%d at quiescence" % (pid, r)
        got = {}
        for pp, it in items:
            got.setdefault(pp, set()).add(it)
        for pipe, acc in accepted.items():
            if pipe in deregd:
                continue
            missing = [x for x in acc if x not in got.get(pipe, set())]
            if missing:
                return "key=rpq-loss accepted items never returned on pipe %d: %s" % (pipe, missing)
    return None


def wait_case(rng):
    kind = rng.choice(["wg", "lb"])
    ops = ["%s new" % kind]
    if kind == "wg":
        n = rng.choice([1, 1, 2, 3])
        ops.append("wg add %d" % n)
        ops.append("task W wgwait")
        events = ["wg done"] * n
    else:
        ops.append("task W lbwait")
        events = ["lb add 1"]
    seq = events + ["step W"] * rng.randrange(1, 5)
    rng.shuffle(seq)
    ops += seq + ["step W"] * 4
    return ops


def wait_oracle(case, impl):
    """once the condition holds and the waiter is polled again, it must complete"""
    if not impl[-1].startswith("done(ok"):
        return "key=lost-wakeup waiter still blocked after the condition became true: %s -> %s" % (case, impl[-4:])
    return None


def rpq_oracle_cancel(case, impl):
    """variant of rpq_oracle for schedules with cancellations: a cancelled consumer may have taken (and dropped) at most the
    item it was holding; a cancelled producer's remaining script ops never ran"""
    deregd = set()
    scripts = {}
    accepted = {}
    returned = []
    cancelled = set()
    for op, out in zip(case, impl):
        p = op.split(" ")
        if p[0] == "task" and p[2] == "script":
            scripts[p[1]] = p[3].split(";")
        elif p[0] == "cancel" and out == "done(cancelled)":
            cancelled.add(p[1])
        elif p[0] in ("step", "cancel") and out in ("done(PANIC)", "HANG"):
            return "key=rpq-cancel-crash task %s: %s" % (p[1], out)
        elif p[0] == "res" and p[1] in scripts:
            res = out[1:-1].split(";") if out != "[]" else []
            sc = scripts.pop(p[1])
            for o, r in zip(sc, res):
                f = o.split(":")
                if f[0] in ("send", "trysend") and r == "ok":
                    accepted.setdefault(int(f[1]), []).append(int(f[2]))
                elif f[0] == "batch" and r.startswith("sent="):
                    n = int(r.split(" ")[0][5:])
                    accepted.setdefault(int(f[1]), []).extend(int(x) for x in f[2].split(",")[:n])
                elif f[0] in ("pop", "trypop") and ":" in r and not r.startswith("err"):
                    pp, it = r.split(":")
                    returned.append((p[1], int(pp), int(it)))
    items = [(pp, it) for _, pp, it in returned]
    if len(items) != len(set(items)):
        return "key=rpq-cancel-duplicate an item was returned twice: %s" % items
    for cons in set(c for c, _, _ in returned):
        for pipe in set(pp for _, pp, _ in returned):
            seq = [it for c, pp, it in returned if c == cons and pp == pipe]
            if seq != sorted(seq):
                return "key=rpq-cancel-order consumer %s saw pipe %d out of order: %s" % (cons, pipe, seq)
    last = impl[-1]
    for tok in last.split(" "):
        if tok.startswith("p") and ":" in tok:
            pid = int(tok[1:tok.index(":")])
            q, r, l = [int(x[1:]) for x in tok[tok.index(":") + 1:].split(",")]
            if q != l:
                return "key=rpq-cancel-counter pipe %d queued_count=%d but channel holds %d at quiescence" % (pid, q, l)
            if r != q:
                return "key=rpq-cancel-reservation-leak pipe %d reserved_count=%d queued_count=%d at quiescence" % (pid, r, q)
            if l > 0:
                return "key=rpq-cancel-lost-wakeup pipe %d still holds %d item(s) while consumers are parked" % (pid, l)
    # every completed accepted item is returned, except possibly items a cancelled task was in the middle of handling
    got = {}
    for pp, it in items:
        got.setdefault(pp, set()).add(it)
    # a consumer never holds an item across an await, and a cancelled send has written nothing (C09 theorems): dropping a
    # future loses nothing that was accepted
    slack = 0
    for pipe, acc in accepted.items():
        missing = [x for x in acc if x not in got.get(pipe, set())]
        if len(missing) > slack:
            return "key=rpq-cancel-loss more accepted items missing (%s) than futures were dropped (%d)" % (missing, slack)
    return None
