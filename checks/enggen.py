"""Generators and reference builders for the `engine` component (C04, C05, C06, C07, C19)."""
import struct

from . import wiregen as W

TYPES = ["PAIR", "PUB", "SUB", "REQ", "REP", "DEALER", "ROUTER", "PULL", "PUSH", "XPUB", "XSUB"]
RZMQ_TYPES = ["PUB", "SUB", "REQ", "REP", "DEALER", "ROUTER", "PULL", "PUSH"]
V2CODE = {"PAIR": 0, "PUB": 1, "SUB": 2, "REQ": 3, "REP": 4, "DEALER": 5, "ROUTER": 6, "PULL": 7, "PUSH": 8,
          "XPUB": 9, "XSUB": 10}
# valid ZeroMQ pairings (RFC): used only to pick a peer type that lets the handshake complete
PARTNER = {"PAIR": ["PAIR"], "PUB": ["SUB", "XSUB"], "SUB": ["PUB", "XPUB"], "REQ": ["REP", "ROUTER"],
           "REP": ["REQ", "DEALER"], "DEALER": ["REP", "DEALER", "ROUTER"], "ROUTER": ["REQ", "DEALER", "ROUTER"],
           "PULL": ["PUSH"], "PUSH": ["PULL"], "XPUB": ["SUB", "XSUB"], "XSUB": ["PUB", "XPUB"]}

SIG = bytes([0xFF] + [0] * 8 + [0x7F])


def mech_field(name):
    b = name.encode() if isinstance(name, str) else name
    return b + bytes(20 - len(b))


def greeting_v3(mech="NULL", as_server=False, rev=3, minor=0, pad=None):
    pad = bytes(31) if pad is None else pad
    return SIG + bytes([rev, minor]) + mech_field(mech) + bytes([1 if as_server else 0]) + pad


def frame(payload, more=False, command=False):
    fl = (1 if more else 0) | (4 if command else 0)
    if len(payload) <= 255:
        return bytes([fl, len(payload)]) + payload
    return bytes([fl | 2]) + struct.pack(">Q", len(payload)) + payload


def props(items):
    out = b""
    for k, v in items:
        k = k.encode() if isinstance(k, str) else k
        out += bytes([len(k)]) + k + struct.pack(">I", len(v)) + v
    return out


def ready(sock_type, identity=None, extra=()):
    items = []
    if identity:
        items.append(("Identity", identity))
    items.append(("Socket-Type", sock_type.encode() if isinstance(sock_type, str) else sock_type))
    items += list(extra)
    return frame(b"\x05READY" + props(items), command=True)


def hello(user, pw):
    return frame(b"\x05HELLO" + bytes([len(user)]) + user + bytes([len(pw)]) + pw, command=True)


def welcome():
    return frame(b"\x07WELCOME", command=True)


def ping(ttl=0, ctx=b""):
    return frame(b"\x04PING" + struct.pack(">H", ttl) + ctx, command=True)


def pong(ctx=b""):
    return frame(b"\x04PONG" + ctx, command=True)


def hexspec(b):
    return "h" + b.hex() if b else "-"


def cfg_str(c):
    return ",".join("%s=%s" % (k, v) for k, v in c.items())


def gen_cfg(rng, mech=None, hb=False, types=RZMQ_TYPES):
    c = {"role": rng.choice(["s", "c"]), "type": rng.choice(types)}
    if rng.random() < 0.4:
        n = rng.choice([1, 2, 5, 255])
        c["id"] = "p%dx%d" % (n, rng.randrange(1, 200))
    mech = mech if mech is not None else rng.choice(["NULL", "NULL", "PLAIN"])
    if mech == "PLAIN":
        c["plain"] = 1
        c["sec"] = 1
        c["user"] = hexspec(bytes(rng.choice(b"abcxyz") for _ in range(rng.choice([0, 1, 4, 8]))))
        c["pass"] = hexspec(bytes(rng.choice(b"pqr123") for _ in range(rng.choice([0, 1, 4, 8]))))
        if rng.random() < 0.1:
            c[rng.choice(["user", "pass"])] = "none"
    if rng.random() < 0.3:
        c["zmtp2"] = rng.choice([0, 1])
    if rng.random() < 0.3:
        c["cork"] = 1
    if rng.random() < 0.2:
        c["zc"] = 1
    if rng.random() < 0.3:
        c["max"] = rng.choice([0, 1, 10, 255, 256, 1000])
    if hb:
        c["hbivl"] = rng.choice([1, 10, 100, 1000])
        c["hbto"] = rng.choice(["none", 1, 5, 50, 500])
    return c


def spec_bytes(c, key):
    v = c.get(key)
    if v is None or v == "none":
        return None
    return W.payload_bytes(v)


def peer_handshake(rng, c, version=3, peer_type=None, peer_id=None):
    """bytes a well-behaved peer sends so that local config `c` completes the handshake;
    returns list of (label, bytes) pieces"""
    pt = peer_type or rng.choice(PARTNER[c["type"]])
    pieces = []
    if version == 2:
        pieces.append(("sig", SIG))
        pieces.append(("rev", bytes([1])))
        pieces.append(("v2type", bytes([V2CODE[pt]])))
        pieces.append(("v2id", frame(peer_id or b"")))
        return pieces
    plain = c.get("plain") == 1
    server = c["role"] == "s"
    g = greeting_v3("PLAIN" if plain else "NULL", as_server=not server)
    pieces.append(("sig", g[:10]))
    pieces.append(("rev", g[10:11]))
    pieces.append(("tail", g[11:]))
    if plain:
        if server:
            pieces.append(("hello", hello(spec_bytes(c, "user") or b"", spec_bytes(c, "pass") or b"")))
        else:
            pieces.append(("welcome", welcome()))
    pieces.append(("ready", ready(pt, peer_id)))
    return pieces


def gen_data(rng, n_msgs, cmds=True, big_ok=False):
    """list of encoded data-phase frames (bytes) with labels"""
    out = []
    for _ in range(n_msgs):
        r = rng.random()
        if cmds and r < 0.12:
            out.append(ping(rng.randrange(0, 300), bytes(rng.randrange(256) for _ in range(rng.choice([0, 1, 16, 20])))))
        elif cmds and r < 0.2:
            out.append(pong(bytes(rng.randrange(256) for _ in range(rng.choice([0, 3])))))
        elif cmds and r < 0.25:
            out.append(frame(bytes([rng.randrange(1, 9)]) + b"SUBSCRIBE"[: rng.randrange(1, 9)], command=True))
        else:
            nf = rng.choice([1, 1, 1, 2, 3, 5])
            for i in range(nf):
                ln = W.pick_len(rng, big_ok)
                out.append(frame(bytes((7 * j + ln) % 256 for j in range(ln)), more=i < nf - 1))
    return out


def stream_spec(chunks):
    toks = [hexspec(b) for b in chunks if b]
    return "+".join(toks) if toks else "-"


def parse_out(line):
    """`net=[..] app=[..]` -> (net list, app list); segments joined by ' | ' are concatenated"""
    net, app = [], []
    for seg in line.split(" | "):
        seg = seg.strip()
        if not seg.startswith("net=["):
            return None
        i = seg.index("] app=[")
        n = seg[5:i]
        a = seg[i + 7:-1]
        net += n.split(" ") if n else []
        app += a.split(" ") if a else []
    return net, app


def few_cuts(rng, total, around=None, maxpieces=8):
    """segmentation with few pieces (stack scenarios pace every write)"""
    pos = set()
    if around is not None:
        for d in (-1, 0, 1, 3):
            if 0 < around + d < total and rng.random() < 0.6:
                pos.add(around + d)
    for _ in range(rng.randrange(0, maxpieces)):
        if total > 1:
            pos.add(rng.randrange(1, total))
    pos = sorted(pos)[:maxpieces]
    cuts, prev = [], 0
    for p in pos:
        cuts.append(p - prev)
        prev = p
    return W.cuts_str(cuts)
