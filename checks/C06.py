"""C06 — a configured security mechanism cannot be bypassed or downgraded."""
from . import flow
from . import enggen as E

MECHS = ["NULL", "PLAIN", "CURVE", "NOISE_XX", "GSSAPI", ""]


def attacker_stream(rng, c, know_creds=False):
    """attacker grammar of the property: greeting variants, then up to k handshake-ish frames"""
    rev = rng.choice([1, 1, 2, 3, 3, 3, 4, 0x7F])
    user = E.spec_bytes(c, "user") or b""
    pw = E.spec_bytes(c, "pass") or b""
    pieces = []
    authed = False
    welcome_sent = False
    if rev < 3:
        pieces.append(E.SIG + bytes([rev]))
        if rev == 1:
            pieces.append(bytes([rng.choice(list(E.V2CODE.values()) + [77])]))
            pieces.append(E.frame(bytes(rng.randrange(256) for _ in range(rng.choice([0, 3])))))
    else:
        mech = rng.choice(MECHS + ["PLAIN"] * 3)
        pieces.append(E.greeting_v3(mech, as_server=rng.random() < 0.5, rev=rev))
    k = rng.randrange(0, 6)
    for i in range(k):
        r = rng.random()
        if r < 0.25:
            if know_creds and rng.random() < 0.7:
                pieces.append(E.hello(user[:255], pw[:255]))
                if i == 0:
                    authed = True
            else:
                # wrong credentials: mutate, swap, truncate, extend
                u2, p2 = rng.choice([(user + b"x", pw), (user, pw + b"y"), (pw, user), (b"", b""), (user[:-1], pw),
                                     (user, pw[:-1]), (b"admin", b"admin")])
                unconfigured = c.get("user") == "none" or c.get("pass") == "none"
                if unconfigured and rng.random() < 0.5:
                    # a server with a credential left unset admits NOBODY: in particular not the empty name / password
                    u2, p2 = rng.choice([(b"", b""), (user, b""), (b"", pw), (user, pw)])
                elif (u2, p2) == (user, pw) and not unconfigured:
                    u2 = user + b"!"
                pieces.append(E.hello(u2[:255], p2[:255]))
        elif r < 0.4:
            pieces.append(E.ready(rng.choice(E.TYPES)))
        elif r < 0.5:
            pieces.append(E.welcome())
            welcome_sent = True
        elif r < 0.58:
            pieces.append(E.frame(b"\x08INITIATE" + bytes(rng.randrange(256) for _ in range(rng.choice([0, 8, 64]))), command=True))
        elif r < 0.66:
            pieces.append(E.frame(b"\x05ERROR" + b"\x05nope!", command=True))
        elif r < 0.74:
            pieces.append(E.frame(bytes([rng.randrange(1, 12)]) + bytes(rng.randrange(65, 91) for _ in range(rng.randrange(0, 12))), command=True))
        elif r < 0.9:
            pieces.append(E.frame(b"secret-payload-%d" % i, more=rng.random() < 0.2))
        else:
            pieces.append(E.frame(b""))
    return pieces, authed, welcome_sent


def gen_cases(rng, tier):
    n = 1500 if tier == "quick" else 40000
    cases = []
    for i in range(n):
        mech = rng.choice(["PLAIN", "PLAIN", "PLAIN", "CURVE", "NOISE"])
        c = E.gen_cfg(rng, mech="PLAIN" if mech == "PLAIN" else "NULL")
        if mech == "PLAIN" and rng.random() < 0.12:
            c["user"] = "none"
            if rng.random() < 0.6:
                c["pass"] = "none"
        if mech == "CURVE":
            c.update({"curve": 1, "sec": 1})
        elif mech == "NOISE":
            c.update({"noise": 1, "sec": 1})
        know = rng.random() < 0.15 and mech == "PLAIN" and c["role"] == "s" and c.get("user") != "none" and c.get("pass") != "none"
        pieces, authed, welcome = attacker_stream(rng, c, know_creds=know)
        stream = b"".join(pieces)
        may_complete = (mech == "PLAIN" and c["role"] == "s" and know) or (mech == "PLAIN" and c["role"] == "c" and welcome)
        cuts = E.W.cuts_str(E.W.random_cuts(rng, len(stream))) if rng.random() < 0.6 else "-"
        cases.append(["note %s" % ("maycomplete" if may_complete else "noauth"),
                      "new A " + E.cfg_str(c), "start A", "bytes A 0 %s %s" % (E.hexspec(stream), cuts), "state A"])
    # a peer that claims the SERVER role towards a listener (as-server = 1) and plays the server's half of PLAIN
    for i in range(max(20, n // 40)):
        c = E.gen_cfg(rng, mech="PLAIN")
        c["role"] = "s"
        pieces = [E.greeting_v3("PLAIN", as_server=True), E.welcome(), E.ready(rng.choice(E.TYPES)), E.frame(b"secret-payload")]
        if rng.random() < 0.3:
            pieces.insert(1, E.hello(b"x", b"y"))
        stream = b"".join(pieces)
        cuts = E.W.cuts_str(E.W.random_cuts(rng, len(stream))) if rng.random() < 0.5 else "-"
        cases.append(["note noauth", "new A " + E.cfg_str(c), "start A", "bytes A 0 %s %s" % (E.hexspec(stream), cuts), "state A"])
    return cases


def oracle(case, impl):
    if case[0] != "note noauth":
        return None
    po = E.parse_out(impl[3])
    if po is None:
        return "unparseable: " + impl[3][:80]
    net, app = po
    for a in app:
        if a.startswith("H("):
            return "key=bypass handshake reported complete for an unauthenticated peer: " + impl[3][:200]
        if a.startswith("D("):
            return "key=bypass application data delivered from an unauthenticated peer: " + impl[3][:200]
    if "phase=data" in impl[4]:
        return "key=bypass engine reached the data phase without authentication"
    return None


def leak_oracle(case, impl):
    """a PLAIN SERVER never sends its configured credentials to a peer (it only ever checks the peer's)"""
    for op, out in zip(case, impl):
        if op.startswith("new A ") and "role=s" not in op:
            return None
    for out in impl:
        if "S(" in out and "0548454c4c4f" in out:
            return "key=credential-leak a PLAIN server sent a HELLO (which carries its own user name and password) to the peer: " + out[:200]
    return None


def both_oracles(case, impl):
    return oracle(case, impl) or leak_oracle(case, impl)


def gen_stack_cases(rng, tier):
    n = 30 if tier == "quick" else 400
    cases = []
    for i in range(n):
        c = {"role": "s", "type": rng.choice(["PULL", "SUB"]), "plain": 1, "sec": 1, "user": "h75736572", "pass": "h70617373"}
        if rng.random() < 0.3:
            c["zmtp2"] = rng.choice([0, 1])
        pieces, authed, _ = attacker_stream(rng, c, know_creds=False)
        stream = b"".join(pieces) + E.frame(b"after-auth-attempt")
        cuts = E.few_cuts(rng, len(stream)) if rng.random() < 0.5 else "-"
        cases.append(["rawpeer %s %s %s" % (E.cfg_str(c), E.hexspec(stream), cuts)])
    # the mechanism is configured through the PUBLIC socket options here (ZmtpEngineConfig::from(&SocketOptions) is part of
    # what is tested): a CURVE-only or NOISE-only socket must refuse NULL / PLAIN / ZMTP-2.0 peers just as well
    for i in range(n // 2):
        mech = rng.choice(["curve", "noise"])
        c = {"role": rng.choice(["s", "s", "c"]), "type": rng.choice(["PULL", "SUB", "DEALER"]), mech: 1, "sec": 1}
        if rng.random() < 0.3:
            c["zmtp2"] = rng.choice([0, 1])
        pieces, authed, _ = attacker_stream(rng, c, know_creds=False)
        stream = b"".join(pieces) + E.frame(b"after-auth-attempt")
        cuts = E.few_cuts(rng, len(stream)) if rng.random() < 0.5 else "-"
        cases.append(["rawpeer %s %s %s" % (E.cfg_str(c), E.hexspec(stream), cuts)])
    # a PLAIN server whose credentials were never set admits nobody - not even the empty name and password
    for creds in (("", ""), ("h75736572", ""), ("", "h70617373")):
        c = {"role": "s", "type": "PULL", "plain": 1, "sec": 1}
        if creds[0]:
            c["user"] = creds[0]
        if creds[1]:
            c["pass"] = creds[1]
        for u2, p2 in ((b"", b""), (b"user", b""), (b"", b"pass")):
            stream = E.greeting_v3("PLAIN") + E.hello(u2, p2) + E.ready("PUSH") + E.frame(b"after-auth-attempt")
            cases.append(["rawpeer %s %s -" % (E.cfg_str(c), E.hexspec(stream))])
    # positive control: the right credentials do get through (keeps the scenario honest)
    c = {"role": "s", "type": "PULL", "plain": 1, "sec": 1, "user": "h75736572", "pass": "h70617373"}
    hs = b"".join(b for _, b in E.peer_handshake(rng, c)) + E.frame(b"ok")
    cases.append(["rawpeer %s %s -" % (E.cfg_str(c), E.hexspec(hs))])
    return cases


def stack_oracle(case, impl):
    if "recv=[D(F0:2:" in impl[0] and case[0].endswith(" -") and "h75736572" in case[0] and impl[0].endswith("hs=ok"):
        return None  # positive control
    if "D(" in impl[0] or impl[0].endswith("hs=ok"):
        # only the positive control (valid HELLO) may succeed
        if "0548454c4c4f047573657204706173730" in case[0]:
            return None
        return "key=bypass real PLAIN listener accepted an unauthenticated raw peer: " + impl[0][:200]
    return None


def nontrivial(case, impl):
    return any("E(" in l or "H(" in l or "recv=[" in l for l in impl)


SPEC = {
    "components": [
        {"comp": "engine", "gen": gen_cases, "nontrivial": nontrivial, "oracle": both_oracles, "dist": lambda cs: {"cases": len(cs)}},
        {"comp": "stack", "gen": gen_stack_cases, "nontrivial": nontrivial, "oracle": stack_oracle, "label": "stack-attacker",
         "dist": lambda cs: {"cases": len(cs)}},
    ],
    "search": lambda rng, tier: [("engine", gen_cases(rng, tier), both_oracles)],
    "rule": "attacker grammar of the property against real engines configured with PLAIN (both roles) / CURVE / NOISE: greeting "
            "revision in {1,2,3,4,0x7f}, mechanism field in {NULL,PLAIN,CURVE,NOISE_XX,GSSAPI,empty}, as-server bit, then up to 5 of "
            "{HELLO(wrong creds; 15% of PLAIN-server cases know the creds as positive control), READY, WELCOME, INITIATE, ERROR, unknown "
            "command, data frame, empty frame}, random segmentation; oracle: no HandshakeComplete/Deliver/data phase for a peer that "
            "did not authenticate; stack: the same grammar over TCP against real sockets configured through the public options with PLAIN, CURVE-only or NOISE-only; non-trivial = the engine produced an "
            "error or a handshake",
    "assumptions": ["cryptographic soundness of CURVE/NOISE is an explicit parameter (AbsSpec) of the theorems, not proved",
                    "PLAIN has no server authentication: a PLAIN client completes after any WELCOME (as the RFC specifies)"],
}


def run(ctx):
    return flow.run(ctx, SPEC)
